//! threads <seed> <rounds> <out.ndjson>
//! C18: one parent state (deep history, mid-turn) is shared between 16 OS threads by
//! reference (thread::scope) and by Arc; every thread expands it concurrently (take_action
//! for every listed action, full observation of every child, clones and drops that hammer
//! the reference counts of the shared history nodes).  Every observation is reduced to a
//! digest of all projected fields and query results; the trace specification requires all
//! digests for the same (parent, action) to equal the single-threaded one taken before the
//! threads were spawned, and the parent's own observation to be unchanged after the join.

use arimaa_engine_step::*;
use std::sync::{Arc, Barrier};
use verif_harness::drivers::*;
use verif_harness::positions::*;
use verif_harness::*;

const THREADS: usize = 16;

fn child_digest(parent: &GameState, a: &Action) -> String {
    match guarded(|| {
        stage("take_action (thread)");
        let child = parent.take_action(a);
        stage("observe child (thread)");
        let f = obs_fields(&child, true);
        // clone/drop churn on the shared history
        let c2 = child.clone();
        let h2 = parent.unwrap_play_phase().hash_history().clone();
        let t = h2.tail();
        drop(c2);
        drop(t);
        drop(h2);
        digest(&f)
    }) {
        Ok(d) => d,
        Err(p) => format!("panic:{}", p),
    }
}

fn main() {
    verif_autotraits::client_requirements();
    let args: Vec<String> = std::env::args().collect();
    let seed: u64 = args[1].parse().unwrap();
    let rounds: usize = args[2].parse().unwrap();
    silence_panics();
    let mut tr = Trace::new(&args[3]);
    let mut rng = Rng::new(seed);
    let mut g = Game::new(&mut tr);
    // pool of (state, line of the event that observed it sequentially) for the cross-state phase
    let mut pool: Vec<(GameState, usize)> = Vec::new();
    for round in 0..rounds {
        // a parent with some history behind it, preferably late in a turn.  Two rounds out of three
        // the game is confined to a small region and steered towards twice-seen positions, so that
        // the repetition bookkeeping (the part of a state that is read most intensively, through the
        // shared history list) matters for the expansion.
        let n = 6 + rng.below(16);
        if round % 3 == 0 {
            let c = clustered_position(&mut rng, n);
            if !g.reset_parsed(&c, rng.chance(0.5), 2 + rng.below(20), "threads") {
                break;
            }
            let len = 6 + rng.below(30);
            play(&mut g, &mut rng, Policy::Contact, len, 0.0);
        } else {
            let (c, region) = confined_position(&mut rng);
            if !g.reset_parsed(&c, rng.chance(0.5), 2 + rng.below(20), "threads") {
                break;
            }
            let len = 40 + rng.below(120);
            play_confined(&mut g, &mut rng, &region, len, 0.0);
            // go on until the repetition rules actually withhold something in the current state (that is
            // where the history is consulted in earnest), preferably late in the turn
            for _ in 0..40 {
                if g.dead || !g.top().is_play_phase() {
                    break;
                }
                let t = g.top().clone();
                let withheld = guarded(|| t.valid_actions().len() < t.valid_actions_no_rep().len()).unwrap_or(false);
                if withheld && t.current_step() >= 1 {
                    break;
                }
                play_confined(&mut g, &mut rng, &region, 1, 0.0);
            }
        }
        if g.dead {
            break;
        }
        let parent = g.top().clone();
        if !parent.is_play_phase() {
            continue;
        }
        let norep = parent.valid_actions_no_rep();
        if norep.is_empty() {
            continue;
        }
        // sequential reference: ordinary probe events (validated like any other event) whose
        // digests become the expected values
        for a in norep.iter() {
            if !g.probe(a) {
                break;
            }
        }
        if g.dead {
            break;
        }
        // concurrent expansion
        let shared = Arc::new(parent.clone());
        let barrier = Barrier::new(THREADS);
        let mut results: Vec<Vec<(Action, String)>> = Vec::new();
        let mut light_results: Vec<Vec<(Action, String)>> = Vec::new();
        std::thread::scope(|sc| {
            let mut hs = Vec::new();
            for t in 0..THREADS {
                let norep = &norep;
                let barrier = &barrier;
                let by_ref: &GameState = &parent;
                let by_arc = Arc::clone(&shared);
                let mut trng = Rng::new(seed * 1000 + (round * 100 + t) as u64);
                hs.push(sc.spawn(move || {
                    let mut out = Vec::new();
                    barrier.wait();
                    for pass in 0..3 {
                        // the shared state itself, observed concurrently (all its queries)
                        let own: &GameState = if (t + pass) % 2 == 0 { by_ref } else { &by_arc };
                        let d = match guarded(|| digest(&obs_fields(own, true))) {
                            Ok(d) => d,
                            Err(p) => format!("panic:{}", p),
                        };
                        out.push((Action::Place(Piece::Rabbit), d)); // marker: logged as [-2,0]
                        let mut order: Vec<usize> = (0..norep.len()).collect();
                        trng.shuffle(&mut order);
                        for &k in order.iter() {
                            let src: &GameState = if (t + pass) % 2 == 0 { by_ref } else { &by_arc };
                            out.push((norep[k], child_digest(src, &norep[k])));
                            if trng.chance(0.3) {
                                std::thread::yield_now();
                            }
                        }
                    }
                    // fast passes: expand and ask only the move-generation queries, ten times over - the children
                    // share the parent's history list, so its nodes are read by all threads at once
                    let mut light = Vec::new();
                    for pass in 0..10 {
                        let mut order: Vec<usize> = (0..norep.len()).collect();
                        trng.shuffle(&mut order);
                        for &k in order.iter() {
                            let src: &GameState = if (t + pass) % 2 == 0 { by_ref } else { &by_arc };
                            let d = match guarded(|| light_digest(&src.take_action(&norep[k]))) {
                                Ok(d) => d,
                                Err(p) => format!("panic:{}", p),
                            };
                            light.push((norep[k], d));
                        }
                    }
                    (out, light)
                }));
            }
            for h in hs {
                let (a, b) = h.join().unwrap_or_default();
                results.push(a);
                light_results.push(b);
            }
        });
        drop(shared);
        // the last child probed sequentially is still on the stack: the first event pops it
        let mut pop = g.pending_pop;
        for _ in 0..pop {
            g.stack.pop();
        }
        g.pending_pop = 0;
        for (t, r) in results.iter().enumerate() {
            for (a, d) in r.iter() {
                if let Action::Place(_) = a {
                    g.tr.tdig_self(t + 1, d, pop);
                } else {
                    g.tr.tdig(t + 1, a, d, pop);
                }
                pop = 0;
            }
        }
        // of the fast passes only one digest per (thread, action, distinct answer) is logged
        for (t, r) in light_results.iter().enumerate() {
            let mut seen_l: std::collections::HashSet<(Action, String)> = std::collections::HashSet::new();
            for (a, d) in r.iter() {
                if seen_l.insert((*a, d.clone())) {
                    g.tr.tdig_kind(t + 1, a, d, pop, true);
                    pop = 0;
                }
            }
        }
        if !g.tr.reobs(&parent, pop) {
            break;
        }
        // remember this parent and some of its children for the cross-state phase: each is observed
        // once more sequentially by an ordinary probe event, whose line number identifies it
        if pool.len() < 400 {
            for a in norep.iter().take(6) {
                if !g.probe(a) {
                    break;
                }
                let line = g.tr.lines; // the probe event just written
                if let Ok(child) = apply(&parent, a) {
                    pool.push((child, line));
                }
            }
        }
        // cross-state phase every 25 rounds: many DIFFERENT states are observed concurrently, so that
        // any process-wide mutable state (a cache, a memo table) is hit by interleaved readers/writers
        if (round + 1) % 20 == 0 && pool.len() >= 50 {
            let states: Vec<&GameState> = pool.iter().map(|x| &x.0).collect();
            let barrier = Barrier::new(THREADS);
            let mut res: Vec<Vec<(usize, String, bool)>> = Vec::new();
            std::thread::scope(|sc| {
                let mut hs = Vec::new();
                for t in 0..THREADS {
                    let states = &states;
                    let barrier = &barrier;
                    let mut trng = Rng::new(seed * 7777 + (round * 100 + t) as u64);
                    hs.push(sc.spawn(move || {
                        let mut out = Vec::new();
                        let mut order: Vec<usize> = (0..states.len()).collect();
                        trng.shuffle(&mut order);
                        barrier.wait();
                        for &k in order.iter() {
                            let d = match guarded(|| digest(&obs_fields(states[k], true))) {
                                Ok(d) => d,
                                Err(p) => format!("panic:{}", p),
                            };
                            out.push((k, d, false));
                        }
                        // fast phase: only the move-generation queries, many times over, so that most
                        // of the time is spent inside the engine
                        for _ in 0..12 {
                            trng.shuffle(&mut order);
                            let mut bad: Option<(usize, String)> = None;
                            let mut last = (0usize, String::new());
                            for &k in order.iter() {
                                let d = match guarded(|| light_digest(states[k])) {
                                    Ok(d) => d,
                                    Err(p) => format!("panic:{}", p),
                                };
                                last = (k, d);
                                let _ = &mut bad;
                                out.push((last.0, last.1.clone(), true));
                            }
                        }
                        out
                    }));
                }
                for h in hs {
                    res.push(h.join().unwrap_or_default());
                }
            });
            let mut pop = g.pending_pop;
            for _ in 0..pop {
                g.stack.pop();
            }
            g.pending_pop = 0;
            for (t, r) in res.iter().enumerate() {
                // full observations are all logged; of the fast phase only disagreements with the first
                // answer of that thread for that state, plus one sample per state (keeps the trace small)
                let mut seen_light: std::collections::HashMap<usize, String> = std::collections::HashMap::new();
                for (k, d, light) in r.iter() {
                    if *light {
                        match seen_light.get(k) {
                            Some(prev) if prev == d => continue,
                            _ => {
                                seen_light.insert(*k, d.clone());
                            }
                        }
                    }
                    g.tr.pdig(t + 1, pool[*k].1, d, pop, *light);
                    pop = 0;
                }
            }
            pool.clear();
        }
    }
    g.tr.flush();
}
