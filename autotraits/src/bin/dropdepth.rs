//! dropdepth <out.ndjson> <rounds>
//! C20 x C18: how deep does the stack get when the LAST handles of one long list are dropped by
//! several threads at the same instant?  The list elements are probes whose Drop records the address
//! of a local variable; the spread of those addresses within one thread is the stack depth reached
//! while that thread released nodes.  With an atomic last-owner test (Arc::into_inner) every node is
//! released from the loop in List::drop at constant depth; if two droppers can both fail the test
//! (Arc::try_unwrap), the one that releases last destroys the chain through the recursive drop glue
//! and the depth grows with the length of the list.  One record per list length.

use arimaa_engine_step::List;
use std::cell::Cell;
use std::io::Write;
use std::sync::atomic::{AtomicUsize, Ordering};
use std::sync::Arc;

thread_local! {
    static LO: Cell<usize> = Cell::new(usize::MAX);
    static HI: Cell<usize> = Cell::new(0);
}

struct Probe;

impl Drop for Probe {
    fn drop(&mut self) {
        let marker = 0u8;
        let addr = &marker as *const u8 as usize;
        LO.with(|c| c.set(c.get().min(addr)));
        HI.with(|c| c.set(c.get().max(addr)));
    }
}

fn build(n: usize) -> List<Probe> {
    let mut l = List::new();
    for _ in 0..n {
        l = l.append(Probe);
    }
    l
}

fn spread() -> usize {
    let lo = LO.with(|c| c.get());
    let hi = HI.with(|c| c.get());
    if lo == usize::MAX {
        0
    } else {
        hi - lo
    }
}

fn main() {
    let args: Vec<String> = std::env::args().collect();
    let mut out = std::io::BufWriter::new(std::fs::File::create(&args[1]).unwrap());
    let rounds: usize = args[2].parse().unwrap();
    const HOLDERS: usize = 8;
    for &n in [1000usize, 4000usize].iter() {
        // sequential baseline: one owner drops the whole list
        let seq = std::thread::Builder::new()
            .stack_size(8 << 20)
            .spawn(move || {
                let l = build(n);
                drop(l);
                spread()
            })
            .unwrap()
            .join()
            .unwrap();
        let mut worst = 0usize;
        for _ in 0..rounds {
            let l = build(n);
            // a spinning start line: all holders leave it within a few nanoseconds of each other
            // (a condvar barrier wakes its waiters one after the other)
            let barrier = Arc::new(AtomicUsize::new(HOLDERS));
            let mut hs = Vec::new();
            for _ in 0..HOLDERS {
                let mine = l.clone();
                let b = Arc::clone(&barrier);
                hs.push(
                    std::thread::Builder::new()
                        .stack_size(8 << 20)
                        .spawn(move || {
                            b.fetch_sub(1, Ordering::AcqRel);
                            while b.load(Ordering::Acquire) != 0 {
                                std::hint::spin_loop();
                            }
                            drop(mine);
                            spread()
                        })
                        .unwrap(),
                );
            }
            drop(l);
            for h in hs {
                worst = worst.max(h.join().unwrap());
            }
        }
        writeln!(
            out,
            "{{\"k\":\"cdrop\",\"n\":{},\"holders\":{},\"rounds\":{},\"seqdepth\":{},\"maxdepth\":{}}}",
            n, HOLDERS, rounds, seq, worst
        )
        .unwrap();
    }
    writeln!(out, "{{\"k\":\"done\"}}").unwrap();
    out.flush().unwrap();
}
