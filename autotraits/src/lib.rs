//! C18, compile-time half: a client program that requires `Send + Sync` of the engine's
//! public types.  The datum is whether this crate compiles: if the main harness builds
//! and this crate does not, some type stopped being shareable between threads.

use arimaa_engine_step::*;

fn require_send_sync<T: Send + Sync>() {}

pub fn client_requirements() {
    require_send_sync::<GameState>();
    require_send_sync::<PieceBoardState>();
    require_send_sync::<PieceBoard>();
    require_send_sync::<Action>();
    require_send_sync::<Zobrist>();
    require_send_sync::<List<Zobrist>>();
    require_send_sync::<PlayPhase>();
    require_send_sync::<Phase>();
    require_send_sync::<PushPullState>();
    require_send_sync::<Square>();
    require_send_sync::<Piece>();
    require_send_sync::<Direction>();
    require_send_sync::<Terminal>();
}
