----------------------------- MODULE DropTrace -----------------------------
(***************************************************************************)
(* Binds PList.tla's drop disciplines to the real code (C20).              *)
(*                                                                         *)
(* PList.tla shows (TLC, all sharing patterns up to 7 nodes): under the    *)
(* "loop" discipline the call stack of a drop never exceeds 1 frame,       *)
(* whatever the length of the list; under "glue" it reaches the length of  *)
(* the uniquely owned prefix.  Stack depth is not visible to TLC, so which *)
(* discipline the CODE follows is decided by observation: harness          *)
(* `longgame` plays capture-free games of n turns through the public API   *)
(* in child processes on a 2 MiB thread, clones/queries/drops the final    *)
(* state, and bisects the minimal surviving stack size at two lengths.     *)
(* The records are accepted iff they are behaviours of the loop discipline:*)
(* every run survives with the right history length, and the minimal stack *)
(* does not grow with n.                                                   *)
(***************************************************************************)
EXTENDS Naturals, Integers, Sequences, FiniteSets, TLC, Json, IOUtils

Rec == ndJsonDeserialize(IOEnv.TRACE)
VARIABLE l
Chk(what, cond) ==
  IF cond THEN TRUE
  ELSE PrintT("FAIL C20 line " \o ToString(l) \o " : " \o what) /\ TLCSet(1, TLCGet(1) + 1)

\* stack frames needed by a drop of n uniquely owned nodes (from PList.tla)
DepthLoop(n) == 1
DepthGlue(n) == n
Tolerance == 16384      \* bytes; bisection granularity is 4 KiB

RunOK(r) ==
  /\ Chk("a game of " \o ToString(r.n) \o " capture-free turns did not survive clone/query/drop on a "
           \o ToString(r.stack) \o "-byte stack: " \o r.status,
         \* exit3 = the DRIVER's random walk found no capture-free non-repeating step (after six seeds):
         \* that run says nothing about the engine and is not judged
         r.survived = 1 \/ r.status = "exit3")
  /\ Chk("history length, iteration or tail of the long game are wrong",
         r.survived = 1 => (r.res.ok = 1 /\ r.res.turns = r.n /\ r.res.hl = r.n + 1
                              /\ r.res.iter_len = r.n + 1 /\ r.res.tail_len = r.n))

BisectOK(r) ==
  /\ Chk("no surviving stack size found", r.min1 > 0 /\ r.min2 > 0)
  /\ Chk("stack use grows with the length of the game: minimal stack " \o ToString(r.min1) \o " bytes at n="
           \o ToString(r.n1) \o " but " \o ToString(r.min2) \o " at n=" \o ToString(r.n2)
           \o " (loop discipline: constant; glue discipline: one frame per node)",
         (r.min1 > 0 /\ r.min2 > 0) =>
            r.min2 - r.min1 <= Tolerance * (DepthLoop(r.n2) - DepthLoop(r.n1) + 1))

UnwindOK(r) ==
  Chk("discarding a game of " \o ToString(r.n) \o " capture-free turns while a panic unwinds the owning thread aborted the process: "
        \o r.status \o " (a drop during unwinding must follow the loop discipline too)",
      r.survived = 1 \/ r.status = "exit3")

\* concurrent release of the last handles (ConcDrop.tla): under the into_inner discipline every node is
\* released from the loop, at the same depth as in a single-threaded drop; under try_unwrap the
\* dropper that releases last recurses once per node
ConcOK(r) ==
  Chk("releasing the last " \o ToString(r.holders) \o " handles of a " \o ToString(r.n)
        \o "-node list at the same time reached a stack depth of " \o ToString(r.maxdepth)
        \o " bytes (single-threaded drop: " \o ToString(r.seqdepth) \o "): the drop recursed along the list",
      r.maxdepth <= r.seqdepth + Tolerance)

RecOK(r) == CASE r.k = "cdrop" -> ConcOK(r) [] r.k = "unwind" -> UnwindOK(r) [] r.k = "run" -> RunOK(r) [] r.k = "bisect" -> BisectOK(r) [] r.k = "done" -> TRUE

Init == l = 1 /\ TLCSet(1, 0)
Next == l <= Len(Rec) /\ RecOK(Rec[l]) /\ l' = l + 1
Spec == Init /\ [][Next]_l
Accepted ==
  LET d == TLCGet("stats").diameter IN
  IF d - 1 = Len(Rec) /\ TLCGet(1) = 0 THEN PrintT(<<"ACCEPTED", Len(Rec)>>)
  ELSE PrintT(<<"REJECTED at line", d, "of", Len(Rec), "probe">>) /\ FALSE
=============================================================================
