---------------------------- MODULE SharedExpand ----------------------------
(***************************************************************************)
(* C18, interleaving half: several threads expand the same published game  *)
(* states concurrently.  A state is an immutable record (value v, history  *)
(* handle h).  The history is the persistent list of PList.tla: nodes with *)
(* an immutable payload and `next`, and an ATOMIC reference count - the    *)
(* only shared memory that is ever written after publication.              *)
(*                                                                         *)
(* One expansion (GameState::take_action on a shared &GameState) is, step  *)
(* by atomic step of the real code:                                        *)
(*   rd:   read the fields of the parent (plain loads of immutable data)   *)
(*   cl:   clone the history handle  (Arc::clone: fetch_add on the head)   *)
(*   al:   allocate a new node whose next is the cloned handle (private)   *)
(*   pb:   publish the child, or keep it private                           *)
(*   dr..: drop a private child: fetch_sub on its head; if that was the    *)
(*         last reference free the node and continue with its next (the    *)
(*         iterative discipline of PList.tla, one atomic step per node)    *)
(* TLC explores every interleaving of these steps for Procs processes      *)
(* doing Rounds expansions each and checks:                                *)
(*   Immutable     published states and allocated nodes are never written  *)
(*   NoUseAfterFree no step touches a freed node                           *)
(*   Sequential    every child equals the sequential function of its parent*)
(*   RcExact       at quiescence rc = number of references                 *)
(***************************************************************************)
EXTENDS Naturals, Sequences, FiniteSets, TLC

CONSTANTS Procs, Rounds, MaxNodes

Nodes == 1..MaxNodes
F(v) == (v * 2 + 1) % 5            \* the "sequential expansion" of a value

(* --algorithm SharedExpand
variables
  next = [n \in Nodes |-> 0],
  pay  = [n \in Nodes |-> 0],                 \* payload of a node (immutable once allocated)
  rc   = [n \in Nodes |-> IF n = 1 THEN 1 ELSE 0],
  freed = {},
  alloc = {1},                                 \* allocated nodes
  published = {[v |-> 1, h |-> 1]},            \* the root state: value 1, history = node 1
  done = [p \in Procs |-> FALSE],
  results = {};                                \* ghost: <<parent value, child value>> pairs

define
  FreeNode == CHOOSE n \in Nodes : n \notin alloc /\ \A m \in Nodes \ alloc : n <= m
  Refs(n) == Cardinality({s \in published : s.h = n})
             + Cardinality({m \in alloc \ freed : next[m] = n})
  Quiescent == \A p \in Procs : done[p]
  RcExact == Quiescent => \A n \in alloc \ freed : rc[n] = Refs(n)
  NoLeakOfShared == Quiescent => \A s \in published : s.h \notin freed
  Sequential == \A r \in results : r[2] = F(r[1])
  NoDanglingPublished == \A s \in published : s.h \notin freed
end define;

fair process worker \in Procs
variables round = 0, parent = [v |-> 0, h |-> 0], lv = 0, lh = 0, node = 0, cur = 0;
begin
  loop:
    while round < Rounds do
  pick: with s \in published do parent := s; end with;
  rd:   \* plain loads of immutable fields of a shared state
        assert parent.h \notin freed;
        lv := parent.v; lh := parent.h;
  cl:   \* Arc::clone of the history handle
        assert lh \notin freed;
        rc[lh] := rc[lh] + 1;
  al:   \* a fresh, still private node in front of the shared tail
        assert Nodes \ alloc # {};
        node := FreeNode;
        alloc := alloc \cup {node} ||
        next[node] := lh || pay[node] := F(lv) || rc[node] := 1;
  pb:   results := results \cup {<<lv, F(lv)>>};
        either  \* publish the child: other threads may now expand it
          published := published \cup {[v |-> F(lv), h |-> node]};
        or      \* discard it: drop the private handle
          cur := node;
  dr:     while cur # 0 do
            assert cur \notin freed;
            if rc[cur] = 1 then
              rc[cur] := 0 || freed := freed \cup {cur};
              cur := next[cur];
            else
              rc[cur] := rc[cur] - 1;
              cur := 0;
            end if;
          end while;
        end either;
  nx:   round := round + 1;
    end while;
  fin: done[self] := TRUE;
end process;
end algorithm; *)
\* BEGIN TRANSLATION (chksum(pcal) = "9a8ab59b" /\ chksum(tla) = "b5f8ff88")
VARIABLES pc, next, pay, rc, freed, alloc, published, done, results

(* define statement *)
FreeNode == CHOOSE n \in Nodes : n \notin alloc /\ \A m \in Nodes \ alloc : n <= m
Refs(n) == Cardinality({s \in published : s.h = n})
           + Cardinality({m \in alloc \ freed : next[m] = n})
Quiescent == \A p \in Procs : done[p]
RcExact == Quiescent => \A n \in alloc \ freed : rc[n] = Refs(n)
NoLeakOfShared == Quiescent => \A s \in published : s.h \notin freed
Sequential == \A r \in results : r[2] = F(r[1])
NoDanglingPublished == \A s \in published : s.h \notin freed

VARIABLES round, parent, lv, lh, node, cur

vars == << pc, next, pay, rc, freed, alloc, published, done, results, round, 
           parent, lv, lh, node, cur >>

ProcSet == (Procs)

Init == (* Global variables *)
        /\ next = [n \in Nodes |-> 0]
        /\ pay = [n \in Nodes |-> 0]
        /\ rc = [n \in Nodes |-> IF n = 1 THEN 1 ELSE 0]
        /\ freed = {}
        /\ alloc = {1}
        /\ published = {[v |-> 1, h |-> 1]}
        /\ done = [p \in Procs |-> FALSE]
        /\ results = {}
        (* Process worker *)
        /\ round = [self \in Procs |-> 0]
        /\ parent = [self \in Procs |-> [v |-> 0, h |-> 0]]
        /\ lv = [self \in Procs |-> 0]
        /\ lh = [self \in Procs |-> 0]
        /\ node = [self \in Procs |-> 0]
        /\ cur = [self \in Procs |-> 0]
        /\ pc = [self \in ProcSet |-> "loop"]

loop(self) == /\ pc[self] = "loop"
              /\ IF round[self] < Rounds
                    THEN /\ pc' = [pc EXCEPT ![self] = "pick"]
                    ELSE /\ pc' = [pc EXCEPT ![self] = "fin"]
              /\ UNCHANGED << next, pay, rc, freed, alloc, published, done, 
                              results, round, parent, lv, lh, node, cur >>

pick(self) == /\ pc[self] = "pick"
              /\ \E s \in published:
                   parent' = [parent EXCEPT ![self] = s]
              /\ pc' = [pc EXCEPT ![self] = "rd"]
              /\ UNCHANGED << next, pay, rc, freed, alloc, published, done, 
                              results, round, lv, lh, node, cur >>

rd(self) == /\ pc[self] = "rd"
            /\ Assert(parent[self].h \notin freed, 
                      "Failure of assertion at line 61, column 9.")
            /\ lv' = [lv EXCEPT ![self] = parent[self].v]
            /\ lh' = [lh EXCEPT ![self] = parent[self].h]
            /\ pc' = [pc EXCEPT ![self] = "cl"]
            /\ UNCHANGED << next, pay, rc, freed, alloc, published, done, 
                            results, round, parent, node, cur >>

cl(self) == /\ pc[self] = "cl"
            /\ Assert(lh[self] \notin freed, 
                      "Failure of assertion at line 64, column 9.")
            /\ rc' = [rc EXCEPT ![lh[self]] = rc[lh[self]] + 1]
            /\ pc' = [pc EXCEPT ![self] = "al"]
            /\ UNCHANGED << next, pay, freed, alloc, published, done, results, 
                            round, parent, lv, lh, node, cur >>

al(self) == /\ pc[self] = "al"
            /\ Assert(Nodes \ alloc # {}, 
                      "Failure of assertion at line 67, column 9.")
            /\ node' = [node EXCEPT ![self] = FreeNode]
            /\ /\ alloc' = (alloc \cup {node'[self]})
               /\ next' = [next EXCEPT ![node'[self]] = lh[self]]
               /\ pay' = [pay EXCEPT ![node'[self]] = F(lv[self])]
               /\ rc' = [rc EXCEPT ![node'[self]] = 1]
            /\ pc' = [pc EXCEPT ![self] = "pb"]
            /\ UNCHANGED << freed, published, done, results, round, parent, lv, 
                            lh, cur >>

pb(self) == /\ pc[self] = "pb"
            /\ results' = (results \cup {<<lv[self], F(lv[self])>>})
            /\ \/ /\ published' = (published \cup {[v |-> F(lv[self]), h |-> node[self]]})
                  /\ pc' = [pc EXCEPT ![self] = "nx"]
                  /\ cur' = cur
               \/ /\ cur' = [cur EXCEPT ![self] = node[self]]
                  /\ pc' = [pc EXCEPT ![self] = "dr"]
                  /\ UNCHANGED published
            /\ UNCHANGED << next, pay, rc, freed, alloc, done, round, parent, 
                            lv, lh, node >>

dr(self) == /\ pc[self] = "dr"
            /\ IF cur[self] # 0
                  THEN /\ Assert(cur[self] \notin freed, 
                                 "Failure of assertion at line 77, column 13.")
                       /\ IF rc[cur[self]] = 1
                             THEN /\ /\ freed' = (freed \cup {cur[self]})
                                     /\ rc' = [rc EXCEPT ![cur[self]] = 0]
                                  /\ cur' = [cur EXCEPT ![self] = next[cur[self]]]
                             ELSE /\ rc' = [rc EXCEPT ![cur[self]] = rc[cur[self]] - 1]
                                  /\ cur' = [cur EXCEPT ![self] = 0]
                                  /\ freed' = freed
                       /\ pc' = [pc EXCEPT ![self] = "dr"]
                  ELSE /\ pc' = [pc EXCEPT ![self] = "nx"]
                       /\ UNCHANGED << rc, freed, cur >>
            /\ UNCHANGED << next, pay, alloc, published, done, results, round, 
                            parent, lv, lh, node >>

nx(self) == /\ pc[self] = "nx"
            /\ round' = [round EXCEPT ![self] = round[self] + 1]
            /\ pc' = [pc EXCEPT ![self] = "loop"]
            /\ UNCHANGED << next, pay, rc, freed, alloc, published, done, 
                            results, parent, lv, lh, node, cur >>

fin(self) == /\ pc[self] = "fin"
             /\ done' = [done EXCEPT ![self] = TRUE]
             /\ pc' = [pc EXCEPT ![self] = "Done"]
             /\ UNCHANGED << next, pay, rc, freed, alloc, published, results, 
                             round, parent, lv, lh, node, cur >>

worker(self) == loop(self) \/ pick(self) \/ rd(self) \/ cl(self)
                   \/ al(self) \/ pb(self) \/ dr(self) \/ nx(self)
                   \/ fin(self)

(* Allow infinite stuttering to prevent deadlock on termination. *)
Terminating == /\ \A self \in ProcSet: pc[self] = "Done"
               /\ UNCHANGED vars

Next == (\E self \in Procs: worker(self))
           \/ Terminating

Spec == /\ Init /\ [][Next]_vars
        /\ \A self \in Procs : WF_vars(worker(self))

Termination == <>(\A self \in ProcSet: pc[self] = "Done")

\* END TRANSLATION

\* published states are never modified, allocated nodes keep payload and next
Immutable ==
  [][ /\ published \subseteq published'
      /\ \A n \in alloc : pay'[n] = pay[n] /\ next'[n] = next[n] ]_vars
 
=============================================================================
