------------------------------- MODULE PList -------------------------------
(***************************************************************************)
(* The persistent singly linked list of linked_list.rs (the engine's       *)
(* history of start-of-turn hashes) with explicit nodes, sharing and       *)
(* reference counts, and the DROP of a handle modelled step by step with   *)
(* an explicit call stack, under two disciplines:                          *)
(*                                                                         *)
(*   "glue": what the compiler generates when List/Node have no Drop impl: *)
(*           releasing a node whose count reaches zero drops its `next`    *)
(*           field INSIDE the current frame - one stack frame per node.    *)
(*   "loop": an iterative Drop for List: take `next` out of the node, free *)
(*           the node, continue with `next`; stop at the first node that   *)
(*           is still shared - constant stack.                             *)
(*                                                                         *)
(* C20 asks that stack use does not grow with the length of the history:   *)
(* C20_Bounded == maxDepth <= K for a K independent of MaxNodes.           *)
(***************************************************************************)
EXTENDS Naturals, Sequences, FiniteSets, TLC

CONSTANTS MaxNodes,     \* nodes 1..MaxNodes can be allocated
          MaxHandles,   \* live handles at any time
          Discipline,   \* "glue" or "loop"
          K             \* the claimed stack bound (frames)

VARIABLES next,      \* next[n]: successor node or 0; only meaningful for allocated nodes
          rc,        \* rc[n]: reference count; 0 = not allocated / freed
          len,       \* len[n]: cached length (the engine stores it in the node)
          handles,   \* sequence of head pointers (0 = empty list), one per live handle
          frames,    \* the call stack of an ongoing drop: sequence of nodes being released
          cur,       \* loop discipline: the link being released (0 = none)
          maxDepth,  \* deepest call stack seen so far
          freed      \* ghost: set of nodes that have been freed

vars == <<next, rc, len, handles, frames, cur, maxDepth, freed>>
Nodes == 1..MaxNodes
Idle == frames = <<>> /\ cur = 0

Init == /\ next = [n \in Nodes |-> 0] /\ rc = [n \in Nodes |-> 0] /\ len = [n \in Nodes |-> 0]
        /\ handles = <<0>> /\ frames = <<>> /\ cur = 0 /\ maxDepth = 0 /\ freed = {}

Fresh == {n \in Nodes : rc[n] = 0 /\ n \notin freed}

\* List::append: a new node in front of handle h's list; the old head gains a reference
AppendTo(h) ==
  /\ Idle /\ Len(handles) < MaxHandles /\ Fresh # {}
  /\ LET n == CHOOSE n \in Fresh : \A m \in Fresh : n <= m
         hd == handles[h]
     IN /\ next' = [next EXCEPT ![n] = hd]
        /\ len' = [len EXCEPT ![n] = (IF hd = 0 THEN 0 ELSE len[hd]) + 1]
        /\ rc' = IF hd = 0 THEN [rc EXCEPT ![n] = 1] ELSE [rc EXCEPT ![n] = 1, ![hd] = rc[hd] + 1]
        /\ handles' = Append(handles, n)
  /\ UNCHANGED <<frames, cur, maxDepth, freed>>

\* List::clone / List::tail: a new handle sharing structure
CloneOf(h) ==
  /\ Idle /\ Len(handles) < MaxHandles
  /\ LET hd == handles[h] IN
       /\ rc' = IF hd = 0 THEN rc ELSE [rc EXCEPT ![hd] = rc[hd] + 1]
       /\ handles' = Append(handles, hd)
  /\ UNCHANGED <<next, len, frames, cur, maxDepth, freed>>

TailOf(h) ==
  /\ Idle /\ Len(handles) < MaxHandles /\ handles[h] # 0
  /\ LET t == next[handles[h]] IN
       /\ rc' = IF t = 0 THEN rc ELSE [rc EXCEPT ![t] = rc[t] + 1]
       /\ handles' = Append(handles, t)
  /\ UNCHANGED <<next, len, frames, cur, maxDepth, freed>>

RemoveAt(s, i) == SubSeq(s, 1, i - 1) \o SubSeq(s, i + 1, Len(s))

\* start dropping handle h
DropStart(h) ==
  /\ Idle /\ Len(handles) > 0
  /\ handles' = RemoveAt(handles, h)
  /\ IF handles[h] = 0 THEN UNCHANGED <<frames, cur, maxDepth>>
     ELSE IF Discipline = "glue"
          THEN /\ frames' = <<handles[h]>> /\ maxDepth' = IF maxDepth < 1 THEN 1 ELSE maxDepth
               /\ UNCHANGED cur
          ELSE /\ cur' = handles[h] /\ frames' = <<handles[h]>>     \* List::drop's own frame
               /\ maxDepth' = IF maxDepth < 1 THEN 1 ELSE maxDepth
  /\ UNCHANGED <<next, rc, len, freed>>

\* glue: release the node on top of the stack; if it dies, its `next` is dropped in a
\* nested frame; a frame returns when its node survives or its child frame has returned
GlueStep ==
  /\ Discipline = "glue" /\ frames # <<>>
  /\ LET n == frames[Len(frames)] IN
       IF rc[n] > 0 /\ n \notin freed
       THEN \* first visit of this frame: decrement
            /\ rc' = [rc EXCEPT ![n] = rc[n] - 1]
            /\ IF rc[n] = 1
               THEN /\ freed' = freed \cup {n}
                    /\ IF next[n] # 0
                       THEN /\ frames' = Append(frames, next[n])
                            /\ maxDepth' = IF maxDepth < Len(frames) + 1 THEN Len(frames) + 1 ELSE maxDepth
                       ELSE /\ frames' = SubSeq(frames, 1, Len(frames) - 1) /\ UNCHANGED maxDepth
               ELSE /\ frames' = SubSeq(frames, 1, Len(frames) - 1) /\ UNCHANGED <<freed, maxDepth>>
       ELSE \* the child frame has returned: this frame returns too
            /\ frames' = SubSeq(frames, 1, Len(frames) - 1) /\ UNCHANGED <<rc, freed, maxDepth>>
  /\ UNCHANGED <<next, len, handles, cur>>

\* loop: while let Some(node) = link { if this was the last reference { link = node.next } else break }
LoopStep ==
  /\ Discipline = "loop" /\ cur # 0
  /\ rc' = [rc EXCEPT ![cur] = rc[cur] - 1]
  /\ IF rc[cur] = 1
     THEN /\ freed' = freed \cup {cur} /\ cur' = next[cur]
          /\ frames' = IF next[cur] = 0 THEN <<>> ELSE frames
     ELSE /\ cur' = 0 /\ frames' = <<>> /\ UNCHANGED freed
  /\ UNCHANGED <<next, len, handles, maxDepth>>

Next == \/ \E h \in 1..Len(handles) : AppendTo(h) \/ CloneOf(h) \/ TailOf(h) \/ DropStart(h)
        \/ GlueStep \/ LoopStep

Spec == Init /\ [][Next]_vars

---------------------------------------------------------------------------
\* reference counts are exact when no drop is in progress
Refs(n) == Cardinality({h \in 1..Len(handles) : handles[h] = n})
           + Cardinality({m \in Nodes : rc[m] > 0 /\ next[m] = n})
RcExact == Idle => \A n \in Nodes : rc[n] = Refs(n)
\* nothing reachable from a live handle has been freed (no use after free)
RECURSIVE Reach(_)
Reach(n) == IF n = 0 THEN {} ELSE {n} \cup Reach(next[n])
NoDangling == Idle => \A h \in 1..Len(handles) : Reach(handles[h]) \cap freed = {}
\* the cached length is the real length (List::len is O(1) and right)
LenExact == Idle => \A h \in 1..Len(handles) :
              handles[h] # 0 => len[handles[h]] = Cardinality(Reach(handles[h]))
\* C20
C20_Bounded == maxDepth <= K
=============================================================================
