----------------------------- MODULE HashTrace -----------------------------
(***************************************************************************)
(* Validates the hash probe (C17).  Each "group" record lists states that  *)
(* pairwise differ in exactly one hashed feature (the keys say which) built*)
(* through the engine's public constructors on top of a base state, with   *)
(* their transposition hashes.  The property holds for the group iff the   *)
(* hashes are pairwise different.  The specification also checks that the  *)
(* groups are the ones of the feature universe (ArimaaHash!AllPP, 13 cell  *)
(* contents, 64 squares ...), so that the enumeration is complete.         *)
(***************************************************************************)
EXTENDS ArimaaHash, Json, IOUtils, TLC

StdComplement == <<8, 2, 2, 2, 1, 1>>
Rec == ndJsonDeserialize(IOEnv.TRACE)
VARIABLE l
Chk(what, cond) ==
  IF cond THEN TRUE
  ELSE PrintT("FAIL C17 line " \o ToString(l) \o " : " \o what) /\ TLCSet(1, TLCGet(1) + 1)

SetOf(q) == {q[k] : k \in 1..Len(q)}
Pairs(n) == (n * (n - 1)) \div 2
AllDistinct(q) == Cardinality(SetOf(q)) = Len(q)

FirstCollision(r) ==
  LET P == {p \in (1..Len(r.th)) \X (1..Len(r.th)) : p[1] < p[2] /\ r.th[p[1]] = r.th[p[2]]}
  IN IF P = {} THEN "none" ELSE LET p == CHOOSE p \in P : TRUE IN
       ToString(r.keys[p[1]]) \o " and " \o ToString(r.keys[p[2]])

GroupShape(r) ==
  CASE r.cls = "cell" -> r.keys = <<0, 1, 2, 3, 4, 5, 6, 7, 8, 9, 10, 11, 12>> /\ r.sq \in Sq
    [] r.cls = "kind" -> /\ r.c \in 1..12 /\ AllDistinct(r.keys)
                         /\ SetOf(r.keys) = {k \in Sq : r.bb[k] = 0}
    [] r.cls = "side" -> r.keys = <<1, 2>>
    [] r.cls = "step" -> r.keys = <<0, 1, 2, 3>>
    [] r.cls = "pp"   -> AllDistinct(r.keys) /\ SetOf(r.keys) = AllPP

GroupOK(r) ==
  /\ Chk("group is not the announced slice of the feature universe", Len(r.th) = Len(r.keys) /\ GroupShape(r))
  /\ Chk("constructor or hash query panicked", "panic" \notin SetOf(r.th))
  /\ Chk("two states differing in one hashed feature (" \o r.cls \o ") have the same transposition hash: "
            \o FirstCollision(r), AllDistinct(r.th))
  /\ TLCSet(2, TLCGet(2) + Pairs(Len(r.th)))

DoneOK(r) ==
  LET G(c) == {i \in 1..Len(Rec) : Rec[i].k = "group" /\ Rec[i].cls = c} IN
  /\ Chk("pair count differs from the enumerated groups", r.pairs = TLCGet(2))
  /\ Chk("feature universe not enumerated completely",
         /\ Cardinality(G("cell")) = 64 * r.bases /\ Cardinality(G("kind")) = 12 * r.bases
         /\ Cardinality(G("side")) = r.bases /\ Cardinality(G("step")) = r.bases /\ Cardinality(G("pp")) = r.bases
         /\ {Rec[i].sq : i \in {j \in G("cell") : Rec[j].base = 0}} = Sq
         /\ {Rec[i].c : i \in {j \in G("kind") : Rec[j].base = 0}} = 1..12
         /\ Cardinality(AllPP) = 641)
  /\ PrintT("PAIRS " \o ToString(TLCGet(2)))

RecOK(r) == CASE r.k = "group" -> GroupOK(r) [] r.k = "done" -> DoneOK(r)

Init == l = 1 /\ TLCSet(1, 0) /\ TLCSet(2, 0)
Next == l <= Len(Rec) /\ RecOK(Rec[l]) /\ l' = l + 1
Spec == Init /\ [][Next]_l
Accepted ==
  LET d == TLCGet("stats").diameter IN
  IF d - 1 = Len(Rec) /\ TLCGet(1) = 0 THEN PrintT(<<"ACCEPTED", Len(Rec)>>)
  ELSE PrintT(<<"REJECTED at line", d, "of", Len(Rec), "probe">>) /\ FALSE
=============================================================================
