----------------------------- MODULE PListTrace -----------------------------
(***************************************************************************)
(* Conformance of linked_list.rs (the persistent history list) with its    *)
(* sequential meaning: a handle denotes a finite sequence, newest element  *)
(* first.  The harness probe `plist` runs random programs over up to 8     *)
(* handles (new, append, tail, clone, drop, and the queries head, len,     *)
(* is_empty, iter) and logs every operation with its result; this module   *)
(* replays the log on TLA+ sequences.  (PList.tla models the same list at  *)
(* the level of nodes and reference counts; here only the observable       *)
(* values matter.)  Extends the specification beyond the listed properties *)
(* (DESIGN.md section 9) and supports C20 / C18: cloning and querying a    *)
(* history gives the right answers whatever sharing lies behind it.        *)
(***************************************************************************)
EXTENDS Naturals, Sequences, TLC, Json, IOUtils

Rec == ndJsonDeserialize(IOEnv.TRACE)
VARIABLES l, hs      \* hs: function handle number -> sequence (newest first); absent = dropped
Chk(what, cond) ==
  IF cond THEN TRUE ELSE PrintT("FAIL C20 line " \o ToString(l) \o " : " \o what) /\ FALSE

Put(h, q) == [x \in DOMAIN hs \cup {h} |-> IF x = h THEN q ELSE hs[x]]
Del(h) == [x \in DOMAIN hs \ {h} |-> hs[x]]
TailOf(q) == IF q = <<>> THEN <<>> ELSE Tail(q)

Step(r) ==
  CASE r.op = "new"    -> hs' = Put(r.dst, <<>>)
    [] r.op = "append" -> /\ Chk("append on a dropped handle", r.src \in DOMAIN hs)
                          /\ hs' = Put(r.dst, <<r.v>> \o hs[r.src])
    [] r.op = "tail"   -> hs' = Put(r.dst, TailOf(hs[r.src]))
    [] r.op = "clone"  -> hs' = Put(r.dst, hs[r.src])
    [] r.op = "drop"   -> hs' = Del(r.src)
    [] r.op = "query"  -> /\ Chk("len() differs from the number of elements", r.len = Len(hs[r.src]))
                          /\ Chk("is_empty() differs", (r.empty = 1) <=> (hs[r.src] = <<>>))
                          /\ Chk("head() differs", r.head = IF hs[r.src] = <<>> THEN <<>> ELSE <<hs[r.src][1]>>)
                          /\ Chk("iter() differs from the sequence, newest first", r.iter = hs[r.src])
                          /\ UNCHANGED hs

Init == l = 1 /\ hs = <<>>
Next == l <= Len(Rec) /\ Step(Rec[l]) /\ l' = l + 1
Spec == Init /\ [][Next]_<<l, hs>>
Accepted ==
  LET d == TLCGet("stats").diameter IN
  IF d - 1 = Len(Rec) THEN PrintT(<<"ACCEPTED", Len(Rec)>>)
  ELSE PrintT(<<"REJECTED at line", d, "of", Len(Rec), "probe">>) /\ FALSE
=============================================================================
