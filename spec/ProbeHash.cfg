CONSTANTS
  W = 8
  H = 8
  Traps = {19, 22, 43, 46}
  Complement <- StdComplement
SPECIFICATION Spec
POSTCONDITION Accepted
CHECK_DEADLOCK FALSE
