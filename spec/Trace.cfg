CONSTANTS
  W = 8
  H = 8
  Traps = {19, 22, 43, 46}
  Complement <- StdComplement
SPECIFICATION TraceSpec
POSTCONDITION TraceAccepted
CHECK_DEADLOCK FALSE
