--------------------------- MODULE NotationTrace ---------------------------
(***************************************************************************)
(* Validates the probe log of the notation parsers/printers (C16).         *)
(* Records (one JSON object per line, written by harness probe "notation"):*)
(*  k = "str":    s = sequence of symbol numbers, and the outcome of the   *)
(*                four parsers on its realisation: act, sq, pc, dir, each  *)
(*                the value tuple, <<-9>> for an error, <<-99>> for a panic*)
(*  k = "val":    kind, v = a value, txt = its printed text, back = the    *)
(*                outcome of parsing txt                                   *)
(*  k = "square": all conversions of one square                            *)
(*  k = "done":   n = number of "str" records, L = length bound, KK = size *)
(*                of the alphabet used (completeness of the enumeration)   *)
(***************************************************************************)
EXTENDS Notation, Json, IOUtils

Rec == ndJsonDeserialize(IOEnv.TRACE)

VARIABLE l
\* a failing record is reported and counted (register 1) and the walk continues, so that
\* every failing input is listed; the log is accepted iff nothing failed
Chk(what, cond) ==
  IF cond THEN TRUE
  ELSE PrintT("FAIL C16 line " \o ToString(l) \o " : " \o what) /\ TLCSet(1, TLCGet(1) + 1)

ActTable == [a \in AllActions |-> ActionChars(a)]
ParseActionFast(s) ==
  LET cs == Chars(s)
      V == {a \in AllActions : ActTable[a] = cs \/ (a[1] = -1 /\ Upper(ActTable[a]) = cs)}
  IN IF V = {} THEN Err ELSE (CHOOSE a \in V : TRUE)

RECURSIVE Pow(_, _)
Pow(b, n) == IF n = 0 THEN 1 ELSE b * Pow(b, n - 1)
RECURSIVE SumPow(_, _)
SumPow(b, n) == IF n = 0 THEN 0 ELSE Pow(b, n) + SumPow(b, n - 1)

StrOK(r) ==
  /\ Chk("Action::from_str outcome differs from the notation", r.act = ParseActionFast(r.s))
  /\ Chk("Square::from_str outcome differs from the notation", r.sq = ParseSquare(r.s))
  /\ Chk("Piece::from_str outcome differs from the notation", r.pc = ParsePiece(r.s))
  /\ Chk("Direction::from_str outcome differs from the notation", r.dir = ParseDir(r.s))

ValOK(r) ==
  CASE r.kind = "action" -> /\ Chk("action prints differently", r.txt = ActionText(r.v))
                            /\ Chk("printed action does not parse back", r.back = r.v)
    [] r.kind = "square" -> /\ Chk("square prints differently", r.txt = SquareText(r.v[1]))
                            /\ Chk("printed square does not parse back", r.back = r.v)
    [] r.kind = "piece"  -> /\ Chk("piece prints differently", r.txt = PieceText(r.v[1]))
                            /\ Chk("printed piece does not parse back", r.back = r.v)
                            /\ Chk("upper-case piece letter does not parse", r.backup = r.v)
    [] r.kind = "dir"    -> /\ Chk("direction prints differently", r.txt = DirText(r.v[1]))
                            /\ Chk("printed direction does not parse back", r.back = r.v)

SquareOK(r) ==
  LET k == r.i IN
  /\ Chk("index() differs", r.idx = k - 1)
  /\ Chk("as_bit_board is not the single bit of the index", r.bit = <<k>>)
  /\ Chk("from_bit_board(as_bit_board) differs", r.frombit = k - 1)
  /\ Chk("column_char differs from file = index mod 8", r.col = FileLetters[FileOf(k) + 1])
  /\ Chk("row differs from rank = 8 - index div 8", r.row = RankOf(k))
  /\ Chk("Square::new(file, rank) differs", r.new = k - 1)
  /\ Chk("Display differs", r.txt = SquareText(k))
  /\ Chk("map_bit_board_to_squares differs", r.mapped = <<k - 1>>)

DoneOK(r) ==
  Chk("enumeration incomplete", r.n = SumPow(r.KK, r.L) /\ r.KK = K
        /\ Cardinality({i \in 1..Len(Rec) : Rec[i].k = "str"}) = r.n
        /\ Cardinality({i \in 1..Len(Rec) : Rec[i].k = "val"}) = 263 + 64 + 6 + 4
        /\ Cardinality({i \in 1..Len(Rec) : Rec[i].k = "square"}) = 64)

RecOK(r) == CASE r.k = "panic" -> Chk("panic in " \o r.call, FALSE) [] r.k = "str" -> StrOK(r) [] r.k = "rnd" -> StrOK(r) [] r.k = "val" -> ValOK(r)
              [] r.k = "square" -> SquareOK(r) [] r.k = "done" -> DoneOK(r)

Init == l = 1 /\ TLCSet(1, 0)
Next == l <= Len(Rec) /\ RecOK(Rec[l]) /\ l' = l + 1
Spec == Init /\ [][Next]_l

Accepted ==
  LET d == TLCGet("stats").diameter IN
  IF d - 1 = Len(Rec) /\ TLCGet(1) = 0 THEN PrintT(<<"ACCEPTED", Len(Rec)>>)
  ELSE PrintT(<<"REJECTED at line", d, "of", Len(Rec), "probe">>) /\ FALSE
=============================================================================
