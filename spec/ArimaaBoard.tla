---------------------------- MODULE ArimaaBoard ----------------------------
(***************************************************************************)
(* Geometry and piece algebra of an Arimaa board of W files and H ranks.   *)
(*                                                                         *)
(* Squares are numbered 1..W*H, left to right, top rank first, so that     *)
(* on the real board (W = H = 8) square k is bit k-1 of the engine's       *)
(* bitboards: square 1 = a8, square 8 = h8, square 57 = a1, square 64 = h1.*)
(* A board is a sequence of N cells.  Cell 0 is empty; 1..6 are Gold's     *)
(* rabbit, cat, dog, horse, camel, elephant; 7..12 the same for Silver.    *)
(* The piece type number is also its strength.                             *)
(***************************************************************************)
EXTENDS Naturals, Integers, Sequences, FiniteSets

CONSTANTS W,        \* number of files
          H,        \* number of ranks
          Traps     \* set of trap squares

N    == W * H
Sq   == 1..N
Dirs == 1..4        \* 1 = north (up), 2 = east (right), 3 = south (down), 4 = west (left)

Gold   == 1
Silver == 2
Other(s) == 3 - s

Rabbit == 1  Cat == 2  Dog == 3  Horse == 4  Camel == 5  Elephant == 6
Types == 1..6

Col(i) == (i - 1) % W          \* 0 = file a
Row(i) == (i - 1) \div W       \* 0 = top rank (rank H), H-1 = bottom rank (rank 1)

NbrF(i, d) ==
  CASE d = 1 -> IF Row(i) = 0     THEN 0 ELSE i - W
    [] d = 2 -> IF Col(i) = W - 1 THEN 0 ELSE i + 1
    [] d = 3 -> IF Row(i) = H - 1 THEN 0 ELSE i + W
    [] d = 4 -> IF Col(i) = 0     THEN 0 ELSE i - 1

\* constant tables, evaluated once by TLC
Nbr == [i \in Sq |-> [d \in Dirs |-> NbrF(i, d)]]
Adj == [i \in Sq |-> {NbrF(i, d) : d \in Dirs} \ {0}]
OppDir(d) == ((d + 1) % 4) + 1

Owner(c)   == IF c <= 6 THEN Gold ELSE Silver
Type(c)    == IF c <= 6 THEN c ELSE c - 6
Cell(o, t) == t + 6 * (o - 1)

EmptyBoard == [i \in Sq |-> 0]

Mine(b, i, s)   == b[i] # 0 /\ Owner(b[i]) = s
Theirs(b, i, s) == b[i] # 0 /\ Owner(b[i]) # s

HasFriend(b, i) == \E j \in Adj[i] : b[j] # 0 /\ Owner(b[j]) = Owner(b[i])

\* a piece is frozen when a stronger enemy piece is adjacent and no friendly piece is
Frozen(b, i) ==
  /\ ~HasFriend(b, i)
  /\ \E j \in Adj[i] : b[j] # 0 /\ Owner(b[j]) # Owner(b[i]) /\ Type(b[j]) > Type(b[i])

\* the piece on i is carried one square in direction d (no legality implied)
MoveRaw(b, i, d) == [b EXCEPT ![Nbr[i][d]] = b[i], ![i] = 0]

\* squares whose piece must be removed: on a trap with no adjacent friendly piece
CapturedSq(m) == {k \in Traps : m[k] # 0 /\ ~HasFriend(m, k)}

RECURSIVE ClearSquares(_, _)
ClearSquares(m, C) ==
  IF C = {} THEN m
  ELSE LET k == CHOOSE k \in C : TRUE IN ClearSquares([m EXCEPT ![k] = 0], C \ {k})

RemoveTrapped(m) == ClearSquares(m, CapturedSq(m))

StepBoard(b, i, d) == RemoveTrapped(MoveRaw(b, i, d))

TrapClean(b) == CapturedSq(b) = {}

CountCell(b, c) == Cardinality({i \in Sq : b[i] = c})

\* goal ranks: Gold rabbits aim for the top rank, Silver rabbits for the bottom rank
GoalRank(s) == IF s = Gold THEN 0 ELSE H - 1
RabbitOnGoal(b, s) == \E i \in Sq : b[i] = Cell(s, Rabbit) /\ Row(i) = GoalRank(s)
NoRabbits(b, s)    == \A i \in Sq : b[i] # Cell(s, Rabbit)

\* rabbits may not step backwards: Gold's backward is south, Silver's is north
Back(s) == IF s = Gold THEN 3 ELSE 1

=============================================================================
