---------------------------- MODULE ArimaaRules ----------------------------
(***************************************************************************)
(* The rules of Arimaa as pure operators over game-state records.          *)
(*                                                                         *)
(* A game state g is a record                                              *)
(*   ph   0 = setup ("place") phase, 1 = play phase                        *)
(*   b    the board (ArimaaBoard)                                          *)
(*   s    side to move (Gold = 1, Silver = 2)                              *)
(*   st   number of steps already made in this turn, 0..3                  *)
(*   mn   move number                                                      *)
(*   pp   push/pull status: <<0,0,0>> nothing pending,                     *)
(*        <<1,sq,t>> a piece of type t of the mover just left sq (a pull   *)
(*        into sq is possible), <<2,sq,t>> an enemy piece of type t was    *)
(*        displaced from sq and the push must be completed into sq         *)
(*   tb   the boards after 0..st-1 steps of this turn                      *)
(*   hist (ghost) every start-of-turn position <<board, side>> since play  *)
(*        began or the position was parsed; exact boards, never forgotten  *)
(*   zh   (mirrors the code) the start-of-turn positions since the last    *)
(*        capture, i.e. what the engine keeps as hash history              *)
(*   tr   (mirrors the code) a capture happened during this turn           *)
(*                                                                         *)
(* Actions are pairs: <<i,d>> a step of the piece on square i in direction *)
(* d, <<0,0>> a pass, <<-1,t>> the placement of a piece of type t.         *)
(***************************************************************************)
EXTENDS ArimaaBoard

CONSTANT Complement      \* [Types -> Nat], pieces per side: 8 R, 2 C, 2 D, 2 H, 1 M, 1 E

NoPP      == <<0, 0, 0>>
PassAct   == <<0, 0>>
PlaceAct(t) == <<-1, t>>
IsMove(a)  == a[1] >= 1
IsPlace(a) == a[1] = -1

---------------------------------------------------------------------------
(* Within-turn rules on (board, side, step, pp)                            *)

\* single steps of the mover's own unfrozen pieces onto empty squares
OwnSteps(b, s) ==
  {a \in Sq \X Dirs :
      /\ Mine(b, a[1], s)
      /\ Nbr[a[1]][a[2]] # 0 /\ b[Nbr[a[1]][a[2]]] = 0
      /\ ~Frozen(b, a[1])
      /\ ~(Type(b[a[1]]) = Rabbit /\ a[2] = Back(s))}

\* first half of a push: an enemy piece next to an unfrozen strictly stronger
\* piece of the mover is displaced onto an empty square
PushStarts(b, s) ==
  {a \in Sq \X Dirs :
      /\ Theirs(b, a[1], s)
      /\ Nbr[a[1]][a[2]] # 0 /\ b[Nbr[a[1]][a[2]]] = 0
      /\ \E j \in Adj[a[1]] : Mine(b, j, s) /\ ~Frozen(b, j) /\ Type(b[j]) > Type(b[a[1]])}

\* second half of a pull: a strictly weaker enemy piece follows into the square
\* the mover's piece has just left
Pulls(b, s, pp) ==
  IF pp[1] # 1 THEN {}
  ELSE {a \in Sq \X Dirs :
          /\ Theirs(b, a[1], s)
          /\ Nbr[a[1]][a[2]] = pp[2] /\ b[pp[2]] = 0
          /\ Type(b[a[1]]) < pp[3]}

\* second half of a push: an unfrozen strictly stronger piece of the mover enters
\* the vacated square
PushCompletions(b, s, pp) ==
  IF pp[1] # 2 THEN {}
  ELSE {a \in Sq \X Dirs :
          /\ Mine(b, a[1], s)
          /\ Nbr[a[1]][a[2]] = pp[2] /\ b[pp[2]] = 0
          /\ ~Frozen(b, a[1])
          /\ Type(b[a[1]]) > pp[3]}

RuleMoves(b, s, st, pp) ==
  IF pp[1] = 2 THEN PushCompletions(b, s, pp)
  ELSE (IF st < 3 THEN PushStarts(b, s) ELSE {}) \cup Pulls(b, s, pp) \cup OwnSteps(b, s)

CanPassRule(st, pp) == st >= 1 /\ pp[1] # 2

\* push/pull status after the step <<i,d>> made on board b with status pp
NextPP(b, s, pp, i, d) ==
  IF Theirs(b, i, s)
  THEN IF pp[1] = 1 /\ Nbr[i][d] = pp[2] /\ pp[3] > Type(b[i])
       THEN NoPP                               \* counted as the completion of a pull
       ELSE <<2, i, Type(b[i])>>               \* a push has been started
  ELSE IF pp[1] # 2 /\ Type(b[i]) # Rabbit
       THEN <<1, i, Type(b[i])>>               \* a pull may follow
       ELSE NoPP                               \* push completed, or a rabbit stepped

---------------------------------------------------------------------------
(* Setup                                                                   *)

HomeRows(s) == IF s = Gold THEN <<H - 2, H - 1>> ELSE <<0, 1>>
HomeSquares(s) == {i \in Sq : Row(i) = HomeRows(s)[1] \/ Row(i) = HomeRows(s)[2]}
FreeHome(b, s) == {i \in HomeSquares(s) : b[i] = 0}
\* Gold fills a2..h2 then a1..h1, Silver a8..h8 then a7..h7: always the lowest index
NextHomeSquare(b, s) == CHOOSE i \in FreeHome(b, s) : \A j \in FreeHome(b, s) : i <= j
Placeable(b, s) == {t \in Types : CountCell(b, Cell(s, t)) < Complement[t]}

---------------------------------------------------------------------------
(* Whole-state operators                                                   *)

TurnStartBoard(g) == IF g.st = 0 THEN g.b ELSE g.tb[1]

RuleActions(g) ==
  IF g.ph = 0 THEN {PlaceAct(t) : t \in Placeable(g.b, g.s)}
  ELSE RuleMoves(g.b, g.s, g.st, g.pp)
         \cup (IF CanPassRule(g.st, g.pp) THEN {PassAct} ELSE {})

EndsTurn(g, a) == g.ph = 1 /\ (a = PassAct \/ g.st = 3)

AfterBoard(g, a) == IF IsMove(a) THEN StepBoard(g.b, a[1], a[2]) ELSE g.b

CountOcc(h, x) == Cardinality({k \in 1..Len(h) : h[k] = x})

\* The repetition rules, stated on exact boards over the full history
Withheld(g, a) ==
  /\ EndsTurn(g, a)
  /\ LET nb == AfterBoard(g, a) IN
       \/ nb = TurnStartBoard(g)
       \/ CountOcc(g.hist, <<nb, Other(g.s)>>) >= 2

Offered(g) == {a \in RuleActions(g) : ~Withheld(g, a)}

\* The same decision the way the engine takes it: on the history kept since the
\* last capture, skipping the fourth-step filter after a capture in this turn.
WithheldImpl(g, a) ==
  /\ EndsTurn(g, a)
  /\ LET nb == AfterBoard(g, a) IN
       IF a = PassAct
       THEN \/ nb = TurnStartBoard(g)
            \/ CountOcc(g.zh, <<nb, Other(g.s)>>) >= 2
       ELSE /\ ~g.tr
            /\ \/ nb = TurnStartBoard(g)
               \/ CountOcc(g.zh, <<nb, Other(g.s)>>) >= 2

OfferedImpl(g) == {a \in RuleActions(g) : ~WithheldImpl(g, a)}

\* successor state
Apply(g, a) ==
  IF IsPlace(a) THEN
    LET i      == NextHomeSquare(g.b, g.s)
        nb     == [g.b EXCEPT ![i] = Cell(g.s, a[2])]
        lastOfSide == FreeHome(g.b, g.s) = {i}
        toPlay == lastOfSide /\ g.s = Silver
    IN [ph |-> IF toPlay THEN 1 ELSE 0, b |-> nb,
        s  |-> IF lastOfSide THEN Other(g.s) ELSE g.s,
        st |-> 0, mn |-> IF toPlay THEN 2 ELSE 1, pp |-> NoPP, tb |-> <<>>,
        hist |-> IF toPlay THEN <<<<nb, Gold>>>> ELSE <<>>,
        zh   |-> IF toPlay THEN <<<<nb, Gold>>>> ELSE <<>>,
        tr |-> FALSE]
  ELSE IF a = PassAct THEN
    [ph |-> 1, b |-> g.b, s |-> Other(g.s), st |-> 0,
     mn |-> g.mn + (IF g.s = Silver THEN 1 ELSE 0), pp |-> NoPP, tb |-> <<>>,
     hist |-> Append(g.hist, <<g.b, Other(g.s)>>),
     zh   |-> Append(IF g.tr THEN <<>> ELSE g.zh, <<g.b, Other(g.s)>>),
     tr |-> FALSE]
  ELSE
    LET i   == a[1]
        d   == a[2]
        m   == MoveRaw(g.b, i, d)
        cap == CapturedSq(m) # {}
        nb  == RemoveTrapped(m)
    IN IF g.st = 3 THEN
         [ph |-> 1, b |-> nb, s |-> Other(g.s), st |-> 0,
          mn |-> g.mn + (IF g.s = Silver THEN 1 ELSE 0), pp |-> NoPP, tb |-> <<>>,
          hist |-> Append(g.hist, <<nb, Other(g.s)>>),
          zh   |-> Append(IF cap THEN <<>> ELSE g.zh, <<nb, Other(g.s)>>),
          tr |-> FALSE]
       ELSE
         [ph |-> 1, b |-> nb, s |-> g.s, st |-> g.st + 1, mn |-> g.mn,
          pp |-> NextPP(g.b, g.s, g.pp, i, d), tb |-> Append(g.tb, g.b),
          hist |-> g.hist,
          zh   |-> IF cap THEN <<>> ELSE g.zh,
          tr |-> g.tr \/ cap]

\* results: 0 = game not over, Gold = 1 / Silver = 2 = that side has won
Result(g) ==
  IF g.ph = 0 THEN 0
  ELSE IF g.st > 0 THEN (IF Offered(g) = {} THEN Other(g.s) ELSE 0)
  ELSE LET A == Other(g.s)     \* the player who just moved
           B == g.s            \* the player to move
       IN IF RabbitOnGoal(g.b, A) THEN A
          ELSE IF RabbitOnGoal(g.b, B) THEN B
          ELSE IF NoRabbits(g.b, B) THEN A
          ELSE IF NoRabbits(g.b, A) THEN B
          ELSE IF Offered(g) = {} THEN A
          ELSE 0

HasMove(g)      == Offered(g) # {}
CanPass(g, rep) == IF rep THEN PassAct \in Offered(g) ELSE PassAct \in RuleActions(g)

\* capture preview: the set of <<square, type, owner>> the action removes
Preview(g, a) ==
  IF ~IsMove(a) THEN {}
  ELSE LET m == MoveRaw(g.b, a[1], a[2]) IN
       {<<k, Type(m[k]), Owner(m[k])>> : k \in CapturedSq(m)}

BoardAtStep(g, i) == IF i = g.st THEN g.b ELSE g.tb[i + 1]

\* a parsed position: start of a turn, one-entry history
ParsedState(b, s, mn) ==
  [ph |-> 1, b |-> b, s |-> s, st |-> 0, mn |-> mn, pp |-> NoPP, tb |-> <<>>,
   hist |-> <<<<b, s>>>>, zh |-> <<<<b, s>>>>, tr |-> FALSE]

InitialState ==
  [ph |-> 0, b |-> EmptyBoard, s |-> Gold, st |-> 0, mn |-> 1, pp |-> NoPP, tb |-> <<>>,
   hist |-> <<>>, zh |-> <<>>, tr |-> FALSE]

\* C02, stated declaratively and independently of StepBoard: nb is b with the piece on i
\* carried to the empty neighbour in direction d and every unsupported trap piece removed
C02Effect(b, i, d, nb) ==
  LET j == Nbr[i][d]
      m == [k \in Sq |-> IF k = j THEN b[i] ELSE IF k = i THEN 0 ELSE b[k]]
  IN /\ b[i] # 0 /\ j # 0 /\ b[j] = 0
     /\ \A k \in Sq : nb[k] = IF k \in Traps /\ m[k] # 0 /\ ~HasFriend(m, k) THEN 0 ELSE m[k]

Material(b) == [c \in 1..12 |-> CountCell(b, c)]
LegalMaterial(b) == \A c \in 1..12 : CountCell(b, c) <= Complement[Type(c)]
LegalPosition(b) == LegalMaterial(b) /\ TrapClean(b)

=============================================================================
