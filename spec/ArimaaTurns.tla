----------------------------- MODULE ArimaaTurns -----------------------------
(***************************************************************************)
(* C01's oracle, checked against an independent formulation.               *)
(*                                                                         *)
(* CONSTRUCTIVE (what ArimaaRules says may be played now, step by step,    *)
(* through RuleMoves / NextPP - the operators the trace conjuncts use):    *)
(*   ConsPrefixes(b, s)  all step sequences of length 0..4 playable from   *)
(*                       the start of a turn,                              *)
(*   ConsComplete(b, s)  those after which the turn may end (a pass is     *)
(*                       allowed, or four steps have been made).           *)
(*                                                                         *)
(* DECLARATIVE (the statement of C01): a complete legal turn is a sequence *)
(* of 1..4 physically possible steps that can be LABELLED, one label per   *)
(* step (no step serves two purposes), as                                  *)
(*   own     a step of an unfrozen piece of the mover (rabbits not back)   *)
(*   lead    the same, by a non-rabbit piece, immediately followed by      *)
(*   follow  a strictly weaker adjacent enemy piece stepping into the      *)
(*           square the lead piece has just left  (a pull)                 *)
(*   victim  an enemy piece next to an unfrozen strictly stronger piece of *)
(*           the mover being displaced, immediately followed by            *)
(*   enter   an unfrozen piece of the mover, strictly stronger than the    *)
(*           victim, stepping into the square the victim left  (a push).   *)
(* Strength and freezing are judged on the board at the moment of each     *)
(* step, captures applied after every step.                                *)
(*                                                                         *)
(* Agree(b, s): the two formulations define the same complete turns and    *)
(* the same prefixes.  TLC checks it for every root of the MC_turns models.*)
(***************************************************************************)
EXTENDS ArimaaRules, TLC

RawSteps(b) == {a \in Sq \X Dirs : b[a[1]] # 0 /\ Nbr[a[1]][a[2]] # 0 /\ b[Nbr[a[1]][a[2]]] = 0}

---------------------------------------------------------------------------
\* declarative side

Labels == {"own", "lead", "follow", "victim", "enter"}

\* May the step a = <<i,d>>, made on board b as step number k of the turn, carry label lab, when
\* the previous step left square pi on board pb (the board before that step) with label prevLab?
StepOK(s, b, a, lab, prevLab, pb, pi) ==
  LET i == a[1]  d == a[2] IN
  /\ (prevLab = "lead"   => lab = "follow")
  /\ (prevLab = "victim" => lab = "enter")
  /\ CASE lab = "own"  -> Mine(b, i, s) /\ ~Frozen(b, i) /\ ~(Type(b[i]) = Rabbit /\ d = Back(s))
       [] lab = "lead" -> Mine(b, i, s) /\ ~Frozen(b, i) /\ Type(b[i]) # Rabbit
       [] lab = "follow" -> /\ prevLab = "lead" /\ Theirs(b, i, s)
                            /\ Nbr[i][d] = pi /\ Type(b[i]) < Type(pb[pi])
       [] lab = "victim" -> /\ Theirs(b, i, s)
                            /\ \E j \in Adj[i] : Mine(b, j, s) /\ ~Frozen(b, j) /\ Type(b[j]) > Type(b[i])
       [] lab = "enter" -> /\ prevLab = "victim" /\ Mine(b, i, s) /\ ~Frozen(b, i)
                           /\ Nbr[i][d] = pi /\ Type(b[i]) > Type(pb[pi])

\* all labelled step sequences extending q (current board b, last label prevLab, previous board pb,
\* square left by the previous step pi); a sequence is a complete turn when it is non-empty and its
\* last label needs no partner ("lead" and "victim" must be followed by their partner inside the turn)
RECURSIVE DeclFrom(_, _, _, _, _, _)
DeclFrom(s, q, b, prevLab, pb, pi) ==
  (IF q # <<>> /\ prevLab \notin {"lead", "victim"} THEN {q} ELSE {})
  \cup
  (IF Len(q) = 4 THEN {}
   ELSE UNION {UNION {DeclFrom(s, Append(q, a), StepBoard(b, a[1], a[2]), lab, b, a[1]) :
                        lab \in {l \in Labels : StepOK(s, b, a, l, prevLab, pb, pi)}} :
                 a \in RawSteps(b)})

DeclComplete(b, s) == DeclFrom(s, <<>>, b, "", b, 0)
\* prefixes of complete turns: labelled sequences that can still be completed.  (A sequence ending
\* in "lead"/"victim" at step 4 is not a prefix of anything.)
DeclPrefixes(b, s) == UNION {{SubSeq(q, 1, j) : j \in 0..Len(q)} : q \in DeclComplete(b, s)}

---------------------------------------------------------------------------
\* constructive side: <<sequence, board, pp>> triples, by step count

RECURSIVE ConsStates(_, _, _)
ConsStates(b, s, n) ==
  IF n = 0 THEN {<<<<>>, b, NoPP>>}
  ELSE UNION {{<<Append(t[1], a), StepBoard(t[2], a[1], a[2]), NextPP(t[2], s, t[3], a[1], a[2])>> :
                  a \in RuleMoves(t[2], s, n - 1, t[3])} : t \in ConsStates(b, s, n - 1)}

ConsPrefixes(b, s) == {t[1] : t \in UNION {ConsStates(b, s, n) : n \in 0..4}}
\* the turn may end: pass allowed after 1..3 steps, or the fourth step has been made
ConsComplete(b, s) ==
  {t[1] : t \in UNION {{u \in ConsStates(b, s, n) : CanPassRule(n, u[3])} : n \in 1..3}}
    \cup {t[1] : t \in ConsStates(b, s, 4)}

Agree(b, s) ==
  LET cc == ConsComplete(b, s)
      cp == ConsPrefixes(b, s)
      dc == DeclComplete(b, s)
      dp == UNION {{SubSeq(q, 1, j) : j \in 0..Len(q)} : q \in dc}
      c4 == ConsStates(b, s, 4)
  IN
  /\ cc = dc
  /\ cp = dp \cup {<<>>}
  \* (with the two equalities, every playable prefix is a prefix of a complete turn: C01's "every
  \* offered step can be continued to a complete legal turn")
  \* after the fourth step nothing is pending
  /\ \A t \in c4 : t[3][1] # 2
=============================================================================
