----------------------------- MODULE ArimaaTurns -----------------------------
(***************************************************************************)
(* C01's oracle, checked against an independent formulation.               *)
(*                                                                         *)
(* CONSTRUCTIVE (what ArimaaRules says may be played now, step by step,    *)
(* through RuleMoves / NextPP - the operators the trace conjuncts use):    *)
(*   ConsPrefixes(b, s)  all step sequences of length 0..4 playable from   *)
(*                       the start of a turn,                              *)
(*   ConsComplete(b, s)  those after which the turn may end (a pass is     *)
(*                       allowed, or four steps have been made).           *)
(*                                                                         *)
(* DECLARATIVE (the statement of C01): a complete legal turn is a sequence *)
(* of 1..4 physically possible steps that can be LABELLED, one label per   *)
(* step (no step serves two purposes), as                                  *)
(*   own     a step of an unfrozen piece of the mover (rabbits not back)   *)
(*   lead    the same, by a non-rabbit piece, immediately followed by      *)
(*   follow  a strictly weaker adjacent enemy piece stepping into the      *)
(*           square the lead piece has just left  (a pull)                 *)
(*   victim  an enemy piece next to an unfrozen strictly stronger piece of *)
(*           the mover being displaced, immediately followed by            *)
(*   enter   an unfrozen piece of the mover, strictly stronger than the    *)
(*           victim, stepping into the square the victim left  (a push).   *)
(* Strength and freezing are judged on the board at the moment of each     *)
(* step, captures applied after every step.                                *)
(*                                                                         *)
(* Agree(b, s): the two formulations define the same complete turns and    *)
(* the same prefixes.  TLC checks it for every root of the MC_turns models.*)
(***************************************************************************)
EXTENDS ArimaaRules, TLC

RawSteps(b) == {a \in Sq \X Dirs : b[a[1]] # 0 /\ Nbr[a[1]][a[2]] # 0 /\ b[Nbr[a[1]][a[2]]] = 0}

\* all physically possible step sequences of length exactly n, each with the boards before
\* every step: <<q, bs>> with bs[k] the board before step k and bs[Len(q)+1] the final board
RECURSIVE RawT(_, _)
RawT(b, n) ==
  IF n = 0 THEN {<<<<>>, <<b>>>>}
  ELSE UNION {{<<Append(t[1], a), Append(t[2], StepBoard(t[2][Len(t[2])], a[1], a[2]))>> :
                  a \in RawSteps(t[2][Len(t[2])])} : t \in RawT(b, n - 1)}

---------------------------------------------------------------------------
\* declarative side

\* may step k of q carry label lab, given the label of step k-1 ("" = none)?
StepOK(s, q, bs, k, lab, prevLab) ==
  LET b  == bs[k]
      i  == q[k][1]
      d  == q[k][2]
      pb == IF k > 1 THEN bs[k - 1] ELSE bs[1]          \* board before step k-1
      pi == IF k > 1 THEN q[k - 1][1] ELSE 0            \* square step k-1 left
  IN
  /\ (prevLab = "lead"   => lab = "follow")
  /\ (prevLab = "victim" => lab = "enter")
  /\ CASE lab = "own"  -> Mine(b, i, s) /\ ~Frozen(b, i) /\ ~(Type(b[i]) = Rabbit /\ d = Back(s))
       [] lab = "lead" -> /\ Mine(b, i, s) /\ ~Frozen(b, i) /\ Type(b[i]) # Rabbit
                          /\ k < Len(q)
       [] lab = "follow" -> /\ prevLab = "lead" /\ Theirs(b, i, s)
                            /\ Nbr[i][d] = pi /\ Type(b[i]) < Type(pb[pi])
       [] lab = "victim" -> /\ Theirs(b, i, s) /\ k < Len(q)
                            /\ \E j \in Adj[i] : Mine(b, j, s) /\ ~Frozen(b, j) /\ Type(b[j]) > Type(b[i])
       [] lab = "enter" -> /\ prevLab = "victim" /\ Mine(b, i, s) /\ ~Frozen(b, i)
                           /\ Nbr[i][d] = pi /\ Type(b[i]) > Type(pb[pi])

Labels == {"own", "lead", "follow", "victim", "enter"}

RECURSIVE LabelFrom(_, _, _, _, _)
LabelFrom(s, q, bs, k, prevLab) ==
  IF k > Len(q) THEN prevLab \notin {"lead", "victim"}
  ELSE \E lab \in Labels : StepOK(s, q, bs, k, lab, prevLab) /\ LabelFrom(s, q, bs, k + 1, lab)

CompleteTurn(s, t) == Len(t[1]) \in 1..4 /\ LabelFrom(s, t[1], t[2], 1, "")

DeclComplete(b, s) == {t[1] : t \in {u \in UNION {RawT(b, n) : n \in 1..4} : CompleteTurn(s, u)}}
DeclPrefixes(b, s) == UNION {{SubSeq(q, 1, j) : j \in 0..Len(q)} : q \in DeclComplete(b, s)}

---------------------------------------------------------------------------
\* constructive side: <<sequence, board, pp>> triples, by step count

RECURSIVE ConsStates(_, _, _)
ConsStates(b, s, n) ==
  IF n = 0 THEN {<<<<>>, b, NoPP>>}
  ELSE UNION {{<<Append(t[1], a), StepBoard(t[2], a[1], a[2]), NextPP(t[2], s, t[3], a[1], a[2])>> :
                  a \in RuleMoves(t[2], s, n - 1, t[3])} : t \in ConsStates(b, s, n - 1)}

ConsPrefixes(b, s) == {t[1] : t \in UNION {ConsStates(b, s, n) : n \in 0..4}}
\* the turn may end: pass allowed after 1..3 steps, or the fourth step has been made
ConsComplete(b, s) ==
  {t[1] : t \in UNION {{u \in ConsStates(b, s, n) : CanPassRule(n, u[3])} : n \in 1..3}}
    \cup {t[1] : t \in ConsStates(b, s, 4)}

Agree(b, s) ==
  /\ ConsComplete(b, s) = DeclComplete(b, s)
  /\ ConsPrefixes(b, s) = DeclPrefixes(b, s) \cup {<<>>}
  \* every playable prefix can be continued to a complete turn (C01: "every offered step can
  \* be continued to a complete legal turn")
  /\ \A p \in ConsPrefixes(b, s) : p = <<>> \/ \E c \in ConsComplete(b, s) :
         Len(c) >= Len(p) /\ SubSeq(c, 1, Len(p)) = p
  \* after the fourth step nothing is pending
  /\ \A t \in ConsStates(b, s, 4) : t[3][1] # 2
=============================================================================
