------------------------------ MODULE ConcDrop ------------------------------
(***************************************************************************)
(* C20 x C18: the last handles of one long history are dropped by several  *)
(* threads at the same time.  List::drop walks the chain; for every node   *)
(* it must decide ATOMICALLY whether it holds the last reference.          *)
(*                                                                         *)
(*   "into_inner":  one atomic decrement-and-test per node (Arc::into_inner*)
(*                  - exactly one of the racing droppers gets the node and *)
(*                  continues with its successor in the loop.              *)
(*   "try_unwrap":  first test "am I the only owner?" (fails for BOTH of   *)
(*                  two racing droppers), then release the reference in a  *)
(*                  second step - the dropper that happens to release last *)
(*                  destroys the node through the compiler's drop glue,    *)
(*                  which recurses along the whole chain.                  *)
(*                                                                         *)
(* depth[p] counts nested frames of process p; C20_Bounded: never above 1. *)
(* TLC: holds for into_inner (all interleavings), violated for try_unwrap. *)
(* The code is bound to a discipline by the concurrent drop-depth probe    *)
(* (autotraits/src/bin/dropdepth.rs), validated by DropTrace.tla.          *)
(***************************************************************************)
EXTENDS Naturals, FiniteSets, TLC
CONSTANTS Procs, N, Discipline

(* --algorithm ConcDrop
variables
  rc = [n \in 1..N |-> IF n = 1 THEN Cardinality(Procs) ELSE 1],  \* every process holds the head
  freed = {},
  maxDepth = 0;
define
  Succ(n) == IF n < N THEN n + 1 ELSE 0
  C20_Bounded == maxDepth <= 1
  AllFreedOnce == (\A p \in Procs : pc[p] = "Done") => freed = 1..N
end define;
process dropper \in Procs
variables cur = 1, depth = 0, g = 0;
begin
  start: depth := 1; maxDepth := IF maxDepth < 1 THEN 1 ELSE maxDepth;
  loop:
    while cur # 0 do
      if Discipline = "into_inner" then
  dec:  \* Arc::into_inner: fetch_sub; the caller that brings the count to zero owns the node
        rc[cur] := rc[cur] - 1;
        if rc[cur] = 0 then
          freed := freed \cup {cur};
          cur := Succ(cur);
        else
          cur := 0;
        end if;
      else
  try:  \* Arc::try_unwrap: compare_exchange(1 -> 0)
        if rc[cur] = 1 then
          rc[cur] := 0;
          freed := freed \cup {cur};
          cur := Succ(cur);
        else
  rel:    \* Err(arc) is dropped: an ordinary release; if it was the last one, the drop glue of Node runs
          rc[cur] := rc[cur] - 1;
          if rc[cur] = 0 then
            g := cur;
  glue:     while g # 0 do      \* one nested frame per node: Node drops its `next` field inside its own drop
              freed := freed \cup {g};
              depth := depth + 1;
              maxDepth := IF maxDepth < depth THEN depth ELSE maxDepth;
              if Succ(g) # 0 then
                rc[Succ(g)] := rc[Succ(g)] - 1;
                g := IF rc[Succ(g)] = 0 THEN Succ(g) ELSE 0;
              else
                g := 0;
              end if;
            end while;
          end if;
  fin:    cur := 0;
        end if;
      end if;
    end while;
end process;
end algorithm; *)
\* BEGIN TRANSLATION (chksum(pcal) = "35e25feb" /\ chksum(tla) = "1c254098")
VARIABLES pc, rc, freed, maxDepth

(* define statement *)
Succ(n) == IF n < N THEN n + 1 ELSE 0
C20_Bounded == maxDepth <= 1
AllFreedOnce == (\A p \in Procs : pc[p] = "Done") => freed = 1..N

VARIABLES cur, depth, g

vars == << pc, rc, freed, maxDepth, cur, depth, g >>

ProcSet == (Procs)

Init == (* Global variables *)
        /\ rc = [n \in 1..N |-> IF n = 1 THEN Cardinality(Procs) ELSE 1]
        /\ freed = {}
        /\ maxDepth = 0
        (* Process dropper *)
        /\ cur = [self \in Procs |-> 1]
        /\ depth = [self \in Procs |-> 0]
        /\ g = [self \in Procs |-> 0]
        /\ pc = [self \in ProcSet |-> "start"]

start(self) == /\ pc[self] = "start"
               /\ depth' = [depth EXCEPT ![self] = 1]
               /\ maxDepth' = (IF maxDepth < 1 THEN 1 ELSE maxDepth)
               /\ pc' = [pc EXCEPT ![self] = "loop"]
               /\ UNCHANGED << rc, freed, cur, g >>

loop(self) == /\ pc[self] = "loop"
              /\ IF cur[self] # 0
                    THEN /\ IF Discipline = "into_inner"
                               THEN /\ pc' = [pc EXCEPT ![self] = "dec"]
                               ELSE /\ pc' = [pc EXCEPT ![self] = "try"]
                    ELSE /\ pc' = [pc EXCEPT ![self] = "Done"]
              /\ UNCHANGED << rc, freed, maxDepth, cur, depth, g >>

dec(self) == /\ pc[self] = "dec"
             /\ rc' = [rc EXCEPT ![cur[self]] = rc[cur[self]] - 1]
             /\ IF rc'[cur[self]] = 0
                   THEN /\ freed' = (freed \cup {cur[self]})
                        /\ cur' = [cur EXCEPT ![self] = Succ(cur[self])]
                   ELSE /\ cur' = [cur EXCEPT ![self] = 0]
                        /\ freed' = freed
             /\ pc' = [pc EXCEPT ![self] = "loop"]
             /\ UNCHANGED << maxDepth, depth, g >>

try(self) == /\ pc[self] = "try"
             /\ IF rc[cur[self]] = 1
                   THEN /\ rc' = [rc EXCEPT ![cur[self]] = 0]
                        /\ freed' = (freed \cup {cur[self]})
                        /\ cur' = [cur EXCEPT ![self] = Succ(cur[self])]
                        /\ pc' = [pc EXCEPT ![self] = "loop"]
                   ELSE /\ pc' = [pc EXCEPT ![self] = "rel"]
                        /\ UNCHANGED << rc, freed, cur >>
             /\ UNCHANGED << maxDepth, depth, g >>

rel(self) == /\ pc[self] = "rel"
             /\ rc' = [rc EXCEPT ![cur[self]] = rc[cur[self]] - 1]
             /\ IF rc'[cur[self]] = 0
                   THEN /\ g' = [g EXCEPT ![self] = cur[self]]
                        /\ pc' = [pc EXCEPT ![self] = "glue"]
                   ELSE /\ pc' = [pc EXCEPT ![self] = "fin"]
                        /\ g' = g
             /\ UNCHANGED << freed, maxDepth, cur, depth >>

glue(self) == /\ pc[self] = "glue"
              /\ IF g[self] # 0
                    THEN /\ freed' = (freed \cup {g[self]})
                         /\ depth' = [depth EXCEPT ![self] = depth[self] + 1]
                         /\ maxDepth' = (IF maxDepth < depth'[self] THEN depth'[self] ELSE maxDepth)
                         /\ IF Succ(g[self]) # 0
                               THEN /\ rc' = [rc EXCEPT ![Succ(g[self])] = rc[Succ(g[self])] - 1]
                                    /\ g' = [g EXCEPT ![self] = IF rc'[Succ(g[self])] = 0 THEN Succ(g[self]) ELSE 0]
                               ELSE /\ g' = [g EXCEPT ![self] = 0]
                                    /\ rc' = rc
                         /\ pc' = [pc EXCEPT ![self] = "glue"]
                    ELSE /\ pc' = [pc EXCEPT ![self] = "fin"]
                         /\ UNCHANGED << rc, freed, maxDepth, depth, g >>
              /\ cur' = cur

fin(self) == /\ pc[self] = "fin"
             /\ cur' = [cur EXCEPT ![self] = 0]
             /\ pc' = [pc EXCEPT ![self] = "loop"]
             /\ UNCHANGED << rc, freed, maxDepth, depth, g >>

dropper(self) == start(self) \/ loop(self) \/ dec(self) \/ try(self)
                    \/ rel(self) \/ glue(self) \/ fin(self)

(* Allow infinite stuttering to prevent deadlock on termination. *)
Terminating == /\ \A self \in ProcSet: pc[self] = "Done"
               /\ UNCHANGED vars

Next == (\E self \in Procs: dropper(self))
           \/ Terminating

Spec == Init /\ [][Next]_vars

Termination == <>(\A self \in ProcSet: pc[self] = "Done")

\* END TRANSLATION 
 
=============================================================================
