------------------------------ MODULE Notation ------------------------------
(***************************************************************************)
(* The text notation of squares, pieces, directions and actions (C16).     *)
(*                                                                         *)
(* Strings are sequences of abstract symbols 1..K.  The harness realises   *)
(* each symbol as one Unicode character (table SymText below; symbols 23.. *)
(* are non-ASCII characters chosen to stress the parsers: multi-byte       *)
(* encodings, letters whose low byte is an accepted ASCII character, a     *)
(* full-width digit).                                                      *)
(*                                                                         *)
(* Values: squares 1..64 (ArimaaBoard numbering), piece types 1..6,        *)
(* directions 1..4, actions <<i,d>> / <<0,0>> pass / <<-1,t>> placement.   *)
(* Every square/direction combination is an action value (also steps that  *)
(* would leave the board): 256 + 1 + 6 = 263 values.                       *)
(***************************************************************************)
EXTENDS Naturals, Integers, Sequences, FiniteSets, TLC

\* the alphabet; the comment gives the realisation used by the harness
SymText == << "a", "c", "h", "i", "A", "H", "`",        \*  1..7   file letters and neighbours
              "0", "1", "8", "9",                       \*  8..11  digits
              "n", "e", "s", "w", "x",                  \* 12..16  directions and the trap mark
              "p", "r", "R", "E", "m", "q",             \* 17..22  pass, pieces
              " ",                                      \* 23      space
              "U+00E9", "U+20AC", "U+0161", "U+FF11", "U+1F600",     \* 24..28 non-ASCII
              \* 29..32: characters whose LOW BYTE is an accepted ASCII character (a truncating
              \* `as u8` would alias them): rank digit 1, direction n, piece r, pass p
              "U+0131", "U+016E", "U+0172", "U+0170",
              \* 33..36: upper-case forms of accepted lower-case letters that are NOT piece letters
              "P", "N", "S", "W",
              \* 37..39: line ends and tab - what a caller reading actions from a file or a terminal
              \* forgets to strip; no printed form contains them
              "U+000A", "U+000D", "U+0009" >>
K == Len(SymText)
Sym(t) == CHOOSE k \in 1..K : SymText[k] = t

FileLetters == <<"a", "b", "c", "d", "e", "f", "g", "h">>
DirLetters  == <<"n", "e", "s", "w">>
PieceLetters == <<"r", "c", "d", "h", "m", "e">>       \* by type number 1..6
UpperOf(t) == CASE t = "r" -> "R" [] t = "c" -> "C" [] t = "d" -> "D" [] t = "h" -> "H"
                [] t = "m" -> "M" [] t = "e" -> "E" [] OTHER -> t

\* printed forms as texts (used to compare with the engine's Display output)
SquareText(k) == FileLetters[((k - 1) % 8) + 1] \o ToString(8 - ((k - 1) \div 8))
DirText(d)    == DirLetters[d]
PieceText(t)  == PieceLetters[t]
ActionText(a) == IF a[1] >= 1 THEN SquareText(a[1]) \o DirText(a[2])
                 ELSE IF a[1] = 0 THEN "p" ELSE PieceText(a[2])

AllSquares == 1..64
AllDirs    == 1..4
AllPieces  == 1..6
AllActions == (AllSquares \X AllDirs) \cup {<<0, 0>>} \cup {<<-1, t>> : t \in AllPieces}

\* printed forms as sequences of texts, one per character
SquareChars(k) == <<FileLetters[((k - 1) % 8) + 1], ToString(8 - ((k - 1) \div 8))>>
DirChars(d)    == <<DirLetters[d]>>
PieceChars(t)  == <<PieceLetters[t]>>
ActionChars(a) == IF a[1] >= 1 THEN SquareChars(a[1]) \o DirChars(a[2])
                  ELSE IF a[1] = 0 THEN <<"p">> ELSE PieceChars(a[2])

\* a string (sequence of symbol numbers) as a sequence of texts
Chars(s) == [k \in 1..Len(s) |-> SymText[s[k]]]
Upper(cs) == [k \in 1..Len(cs) |-> UpperOf(cs[k])]

\* The statement: parsing succeeds only for strings that are the printed form of the
\* result; piece letters may be upper case.  Err is the value <<-9>>.
Err == <<-9>>
ParseSquare(s) == LET cs == Chars(s)  V == {k \in AllSquares : SquareChars(k) = cs}
                  IN IF V = {} THEN Err ELSE <<CHOOSE k \in V : TRUE>>
ParseDir(s)    == LET cs == Chars(s)  V == {d \in AllDirs : DirChars(d) = cs}
                  IN IF V = {} THEN Err ELSE <<CHOOSE d \in V : TRUE>>
ParsePiece(s)  == LET cs == Chars(s)  V == {t \in AllPieces : PieceChars(t) = cs \/ Upper(PieceChars(t)) = cs}
                  IN IF V = {} THEN Err ELSE <<CHOOSE t \in V : TRUE>>
ParseAction(s) == LET cs == Chars(s)
                      V == {a \in AllActions : ActionChars(a) = cs
                                                 \/ (a[1] = -1 /\ Upper(ActionChars(a)) = cs)}
                  IN IF V = {} THEN Err ELSE (CHOOSE a \in V : TRUE)

\* design-level facts checked by TLC (MC_notation): printing is injective, so parsing the
\* printed form gives the value back and the declarative parser is well defined
PrintInjective ==
  /\ \A a1, a2 \in AllActions : ActionChars(a1) = ActionChars(a2) => a1 = a2
  /\ \A a1, a2 \in AllActions : (a1[1] = -1 /\ Upper(ActionChars(a1)) = ActionChars(a2)) => FALSE
  /\ \A k1, k2 \in AllSquares : SquareChars(k1) = SquareChars(k2) => k1 = k2

\* square <-> (file, rank) <-> index <-> single bit
FileOf(k) == (k - 1) % 8             \* 0 = a
RankOf(k) == 8 - ((k - 1) \div 8)    \* 1..8
SquareOf(f, r) == f + (8 - r) * 8 + 1
Conversions == \A k \in AllSquares : SquareOf(FileOf(k), RankOf(k)) = k
               /\ FileOf(k) \in 0..7 /\ RankOf(k) \in 1..8

=============================================================================
