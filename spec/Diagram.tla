------------------------------ MODULE Diagram ------------------------------
(***************************************************************************)
(* The printed form of a position on the real 8x8 board, as exact text.    *)
(* Square k (1..64) is printed at file (k-1) % 8 (a..h) and rank           *)
(* 8 - (k-1) \div 8, which is the engine's bit-to-square convention.       *)
(***************************************************************************)
EXTENDS Naturals, Sequences, TLC

Letters == <<"R", "C", "D", "H", "M", "E", "r", "c", "d", "h", "m", "e">>
TrapSquares == {19, 22, 43, 46}          \* c6 f6 c3 f3

Letter(b, k) == IF b[k] # 0 THEN Letters[b[k]]
                ELSE IF k \in TrapSquares THEN "x" ELSE " "

RowText(b, r) ==      \* r = 0 is rank 8
  LET k0 == 8 * r IN
  ToString(8 - r) \o "|"
    \o " " \o Letter(b, k0 + 1) \o " " \o Letter(b, k0 + 2) \o " " \o Letter(b, k0 + 3)
    \o " " \o Letter(b, k0 + 4) \o " " \o Letter(b, k0 + 5) \o " " \o Letter(b, k0 + 6)
    \o " " \o Letter(b, k0 + 7) \o " " \o Letter(b, k0 + 8) \o " |\n"

Border == " +-----------------+\n"

PrintPos(b, s, mn) ==
  ToString(mn) \o (IF s = 1 THEN "g" ELSE "s") \o "\n" \o Border
    \o RowText(b, 0) \o RowText(b, 1) \o RowText(b, 2) \o RowText(b, 3)
    \o RowText(b, 4) \o RowText(b, 5) \o RowText(b, 6) \o RowText(b, 7)
    \o Border \o "   a b c d e f g h\n"

=============================================================================
