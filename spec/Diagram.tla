------------------------------ MODULE Diagram ------------------------------
(***************************************************************************)
(* The printed form of a position on the real 8x8 board, as exact text.    *)
(* Square k (1..64) is printed at file (k-1) % 8 (a..h) and rank           *)
(* 8 - (k-1) \div 8, which is the engine's bit-to-square convention.       *)
(***************************************************************************)
EXTENDS Naturals, Sequences, TLC

Letters == <<"R", "C", "D", "H", "M", "E", "r", "c", "d", "h", "m", "e">>
TrapSquares == {19, 22, 43, 46}          \* c6 f6 c3 f3

Letter(b, k) == IF b[k] # 0 THEN Letters[b[k]]
                ELSE IF k \in TrapSquares THEN "x" ELSE " "

RowText(b, r) ==      \* r = 0 is rank 8
  LET k0 == 8 * r IN
  ToString(8 - r) \o "|"
    \o " " \o Letter(b, k0 + 1) \o " " \o Letter(b, k0 + 2) \o " " \o Letter(b, k0 + 3)
    \o " " \o Letter(b, k0 + 4) \o " " \o Letter(b, k0 + 5) \o " " \o Letter(b, k0 + 6)
    \o " " \o Letter(b, k0 + 7) \o " " \o Letter(b, k0 + 8) \o " |\n"

Border == " +-----------------+\n"

\* move numbers beyond TLC's 32-bit integers are handled as three base-10^9 limbs <<high, middle, low>>
Pad9(n) == CASE n < 10 -> "00000000" [] n < 100 -> "0000000" [] n < 1000 -> "000000" [] n < 10000 -> "00000"
             [] n < 100000 -> "0000" [] n < 1000000 -> "000" [] n < 10000000 -> "00" [] n < 100000000 -> "0"
             [] OTHER -> ""
Pad(n) == Pad9(n) \o ToString(n)
LimbText(m) == IF m[1] > 0 THEN ToString(m[1]) \o Pad(m[2]) \o Pad(m[3])
               ELSE IF m[2] > 0 THEN ToString(m[2]) \o Pad(m[3]) ELSE ToString(m[3])
LimbAdd(m, k) ==      \* k \in {0, 1}
  IF k = 0 THEN m
  ELSE IF m[3] < 999999999 THEN <<m[1], m[2], m[3] + 1>>
  ELSE IF m[2] < 999999999 THEN <<m[1], m[2] + 1, 0>> ELSE <<m[1] + 1, 0, 0>>
Limbs(n) == <<0, 0, n>>

PrintPosT(b, s, mntext) ==
  mntext \o (IF s = 1 THEN "g" ELSE "s") \o "\n" \o Border
    \o RowText(b, 0) \o RowText(b, 1) \o RowText(b, 2) \o RowText(b, 3)
    \o RowText(b, 4) \o RowText(b, 5) \o RowText(b, 6) \o RowText(b, 7)
    \o Border \o "   a b c d e f g h\n"
PrintPos(b, s, mn) == PrintPosT(b, s, ToString(mn))

=============================================================================
