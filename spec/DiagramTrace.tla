---------------------------- MODULE DiagramTrace ----------------------------
(***************************************************************************)
(* Validates the diagram-parser probe (C15, second half: parsing arbitrary *)
(* text never panics, it returns a state or an error).                     *)
(*                                                                         *)
(* The shape space of diagram-like inputs: a header (class hdr), nrows     *)
(* rows delimited by '|', ncols cells per row (99 = ragged), a cell class  *)
(* cc and trailing text (class trail).  The harness realises every shape   *)
(* as text, calls GameState::from_str under catch_unwind and, when a state *)
(* comes back, also lists its actions, prints it and asks for the result.  *)
(* Records of kind "mut" are random character-level mutations of printed   *)
(* diagrams (beyond the grammar).                                          *)
(*                                                                         *)
(* Verdict per the statement: any normal return is fine; a panic is the    *)
(* violation.  For WELL-FORMED shapes the specification additionally       *)
(* predicts the parsed state (board = the intended cells, side and move    *)
(* number from the header, start of turn, one history entry).              *)
(***************************************************************************)
EXTENDS Diagram, Naturals, Sequences, FiniteSets, Json, IOUtils

Rec == ndJsonDeserialize(IOEnv.TRACE)
VARIABLE l
Chk(what, cond) ==
  IF cond THEN TRUE
  ELSE PrintT("FAIL C15 line " \o ToString(l) \o " : " \o what) /\ TLCSet(1, TLCGet(1) + 1)

\* headers the regex ^\s*(\d+)([gswb]) accepts with a number that fits: <<side, move number text>>
GoodHeader == [ none |-> <<1, "2">>, small_g |-> <<1, "7">>, small_s |-> <<2, "12">>, small_w |-> <<1, "3">>,
                small_b |-> <<2, "4">>, zero_g |-> <<1, "0">>, lead_ws |-> <<2, "15">>,
                max_usize |-> <<1, "18446744073709551615">>,
                \* not matched by the pattern, so the defaults apply
                plus |-> <<1, "2">>, minus |-> <<1, "2">>, bad_side |-> <<1, "2">>, side_only |-> <<1, "2">>,
                upper_side |-> <<1, "2">> ]

WellFormed(r) == /\ r.nrows = 8 /\ r.ncols = 8 /\ r.cc \in {"pieces", "empty"}
                 /\ r.trail \in {"none", "text"} /\ r.hdr \in DOMAIN GoodHeader

ShapeOK(r) ==
  /\ Chk("parsing a diagram-like text panicked: " \o (IF r.out = "panic" THEN r.call ELSE ""), r.out # "panic")
  /\ Chk("well-formed diagram was rejected", WellFormed(r) => r.out = "ok")
  /\ Chk("well-formed diagram parsed to a different state",
         (WellFormed(r) /\ r.out = "ok") =>
            /\ r.b = (IF r.cc = "pieces" THEN r.cells ELSE [k \in 1..64 |-> 0])
            /\ r.s = GoodHeader[r.hdr][1] /\ r.mn = GoodHeader[r.hdr][2]
            /\ r.st = 0 /\ r.hl = 1 /\ r.ppn = 1 /\ r.ph = 1)
  /\ TLCSet(2, TLCGet(2) + (IF WellFormed(r) THEN 1 ELSE 0))

MutOK(r) ==
  Chk("parsing a mutated diagram panicked: " \o (IF r.out = "panic" THEN r.call ELSE ""), r.out # "panic")

DoneOK(r) ==
  /\ Chk("record counts differ",
         /\ Cardinality({i \in 1..Len(Rec) : Rec[i].k = "shape"}) = r.shapes
         /\ Cardinality({i \in 1..Len(Rec) : Rec[i].k = "mut"}) = r.muts)
  /\ PrintT("WELLFORMED " \o ToString(TLCGet(2)))

RecOK(r) == CASE r.k = "shape" -> ShapeOK(r) [] r.k = "mut" -> MutOK(r) [] r.k = "done" -> DoneOK(r)

Init == l = 1 /\ TLCSet(1, 0) /\ TLCSet(2, 0)
Next == l <= Len(Rec) /\ RecOK(Rec[l]) /\ l' = l + 1
Spec == Init /\ [][Next]_l
Accepted ==
  LET d == TLCGet("stats").diameter IN
  IF d - 1 = Len(Rec) /\ TLCGet(1) = 0 THEN PrintT(<<"ACCEPTED", Len(Rec)>>)
  ELSE PrintT(<<"REJECTED at line", d, "of", Len(Rec), "probe">>) /\ FALSE
=============================================================================
