----------------------------- MODULE ArimaaHash -----------------------------
(***************************************************************************)
(* Model of the engine's Zobrist hashing (zobrist.rs) in which a hash is   *)
(* the finite SET of features that have been xor-ed in; xor is symmetric   *)
(* difference.  It abstracts from the 64-bit table values (their pairwise  *)
(* distinctness is C17, decided on the real tables by the hash probe) and  *)
(* keeps exactly the structure of the incremental updates, so that TLC can *)
(* decide C08's design question: is the incrementally maintained hash a    *)
(* function of (board, side, step) whatever path led there?                *)
(***************************************************************************)
EXTENDS ArimaaRules

Xor(A, B) == (A \ B) \cup (B \ A)

FInit == <<"init">>
FSide == <<"side">>                 \* present iff Silver is to move
FStep(n) == <<"step", n>>
FPiece(c, k) == <<"pc", c, k>>      \* cell value c on square k
FPush(t, k) == <<"push", t, k>>
FPull(t, k) == <<"pull", t, k>>

PieceFeatures(b) == {FPiece(b[k], k) : k \in {i \in Sq : b[i] # 0}}

\* Zobrist::from_piece_board
Scratch(b, s, st) ==
  {FInit} \cup (IF s = Silver THEN {FSide} ELSE {}) \cup {FStep(st)} \cup PieceFeatures(b)

\* what the incrementally maintained hash must be in a setup state (no step feature yet)
ScratchSetup(b, s) == {FInit} \cup (IF s = Silver THEN {FSide} ELSE {}) \cup PieceFeatures(b)

PPFeature(pp) == IF pp[1] = 2 THEN {FPush(pp[3], pp[2])}
                 ELSE IF pp[1] = 1 THEN {FPull(pp[3], pp[2])} ELSE {}
THash(zf, pp) == Xor(zf, PPFeature(pp))

\* piece_board_value: per (owner, type) the squares whose occupancy by that cell changed
BoardDiff(b, nb) ==
  UNION {{FPiece(c, k) : k \in {i \in Sq : (b[i] = c) # (nb[i] = c)}} : c \in 1..12}

\* Zobrist::move_piece
ZMove(zf, b, nb, st, nst, s, ns) ==
  Xor(Xor(Xor(zf, IF s # ns THEN {FSide} ELSE {}), BoardDiff(b, nb)), Xor({FStep(st)}, {FStep(nst)}))

\* Zobrist::place_piece
ZPlace(zf, c, k, switchPlayers, switchPhases) ==
  Xor(Xor(Xor(zf, IF switchPlayers \/ switchPhases THEN {FSide} ELSE {}), {FPiece(c, k)}),
      IF switchPhases THEN {FStep(0)} ELSE {})

\* Zobrist::pass
ZPass(zf, st) == Xor(Xor(zf, {FSide}), Xor({FStep(0)}, {FStep(st)}))

\* the hash after action a taken in g (g2 = Apply(g, a))
ZApply(zf, g, a, g2) ==
  IF IsPlace(a) THEN
    LET i == NextHomeSquare(g.b, g.s)
        lastOfSide == FreeHome(g.b, g.s) = {i}
    IN ZPlace(zf, Cell(g.s, a[2]), i, lastOfSide /\ g.s = Gold, lastOfSide /\ g.s = Silver)
  ELSE IF a = PassAct THEN ZPass(zf, g.st)
  ELSE ZMove(zf, g.b, g2.b, g.st, g2.st, g.s, g2.s)

\* the feature universe of C17
AllPP == {NoPP} \cup {<<2, k, t>> : k \in Sq, t \in 1..5} \cup {<<1, k, t>> : k \in Sq, t \in 2..6}
=============================================================================
