----------------------------- MODULE TwinTrace -----------------------------
(***************************************************************************)
(* C11, oracle-free layer: the observations of four engine instances that  *)
(* play a game and its three symmetric images in lock-step must be images  *)
(* of each other under the maps of ArimaaSym.tla.  No rule of the game is  *)
(* used here: only MapBoard / MapAction / MapResult / MapPP / MapPreview.  *)
(* Because the four histories are images of each other from the first      *)
(* position on, this also covers which actions the repetition rules        *)
(* withhold (off vs norep).  Move numbers are not compared: under colour   *)
(* swap the increment legitimately moves to the other half-turn.           *)
(***************************************************************************)
EXTENDS ArimaaSym, TLC, Json, IOUtils

StdComplement == <<8, 2, 2, 2, 1, 1>>
Rec == ndJsonDeserialize(IOEnv.TRACE)
VARIABLE l
Chk(what, cond) == IF cond THEN TRUE ELSE PrintT("FAIL C11 line " \o ToString(l) \o " : " \o what) /\ FALSE
SetOf(q) == {q[k] : k \in 1..Len(q)}
VName(v) == CASE v = 1 -> "file mirror" [] v = 2 -> "colour swap + rank flip" [] v = 3 -> "mirror and swap"

PreviewSet(o) == {<<o.norep[k], o.pv[k]>> : k \in 1..Len(o.norep)}

Related(o, t, v) ==
  /\ Chk("board is not the image under " \o VName(v) \o " (a capture or step differs)", t.b = MapBoard(o.b, v))
  /\ Chk("side or step differ under " \o VName(v), t.s = MapSide(o.s, v) /\ t.st = o.st)
  /\ Chk("push/pull status is not the image under " \o VName(v), t.pp = MapPP(o.pp, v))
  /\ Chk("rule-only actions are not the images under " \o VName(v), SetOf(t.norep) = MapActions(SetOf(o.norep), v))
  /\ Chk("offered actions are not the images under " \o VName(v) \o " (repetition rules differ)",
         SetOf(t.off) = MapActions(SetOf(o.off), v))
  /\ Chk("result is not the swapped result under " \o VName(v), t.term = MapResult(o.term, v) /\ t.hm = MapResult(o.hm, v))
  /\ Chk("can-pass answers differ under " \o VName(v), t.cp = o.cp)
  /\ Chk("capture previews are not the images under " \o VName(v),
         PreviewSet(t) = {<<MapAction(p[1], v), MapPreview(p[2], v)>> : p \in PreviewSet(o)})

EventOK(e) ==
  /\ Len(e.v) = 4
  /\ \A v \in 1..3 : Related(e.v[1], e.v[v + 1], v)
  /\ TLCSet(2, TLCGet(2) + (IF e.v[1].off # e.v[1].norep THEN 1 ELSE 0))
  /\ TLCSet(3, TLCGet(3) + (IF \E k \in 1..Len(e.v[1].pv) : e.v[1].pv[k] # <<>> THEN 1 ELSE 0))

Init == l = 1 /\ TLCSet(2, 0) /\ TLCSet(3, 0)
Next == l <= Len(Rec) /\ Rec[l].ev \in {"reset", "act"} /\ EventOK(Rec[l]) /\ l' = l + 1
Spec == Init /\ [][Next]_l
Accepted ==
  LET d == TLCGet("stats").diameter IN
  /\ PrintT("COUNTS <<" \o ToString(TLCGet(2)) \o ", " \o ToString(TLCGet(3)) \o ">>")
  /\ IF d - 1 = Len(Rec) THEN PrintT(<<"ACCEPTED", Len(Rec)>>)
     ELSE PrintT(<<"REJECTED at line", d, "of", Len(Rec), "twin">>) /\ FALSE
=============================================================================
