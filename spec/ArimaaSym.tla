----------------------------- MODULE ArimaaSym -----------------------------
(***************************************************************************)
(* The two symmetries of Arimaa (C11) as maps on squares, directions,      *)
(* cells, boards, actions, results and whole states.                       *)
(*   v = 0 identity                                                        *)
(*   v = 1 mirror the files (a <-> h): east <-> west                       *)
(*   v = 2 swap the colours and flip the ranks: north <-> south,           *)
(*         Gold <-> Silver                                                 *)
(*   v = 3 both                                                            *)
(* All maps are involutions.  The trap set must be symmetric.              *)
(***************************************************************************)
EXTENDS ArimaaRules

Variants == 0..3
HasMirror(v) == v % 2 = 1
HasSwap(v)   == v >= 2

MapSq(k, v) ==
  LET r  == Row(k)  c == Col(k)
      c2 == IF HasMirror(v) THEN W - 1 - c ELSE c
      r2 == IF HasSwap(v) THEN H - 1 - r ELSE r
  IN r2 * W + c2 + 1

MapDir(d, v) ==
  LET d1 == IF HasMirror(v) /\ d \in {2, 4} THEN 6 - d ELSE d
  IN IF HasSwap(v) /\ d1 \in {1, 3} THEN 4 - d1 ELSE d1

MapSide(s, v) == IF HasSwap(v) /\ s \in {Gold, Silver} THEN Other(s) ELSE s
MapCell(c, v) == IF c = 0 \/ ~HasSwap(v) THEN c ELSE IF c <= 6 THEN c + 6 ELSE c - 6
MapBoard(b, v) == [j \in Sq |-> MapCell(b[MapSq(j, v)], v)]
MapAction(a, v) == IF IsMove(a) THEN <<MapSq(a[1], v), MapDir(a[2], v)>> ELSE a
MapActions(A, v) == {MapAction(a, v) : a \in A}
MapResult(r, v) == IF r = 0 THEN 0 ELSE MapSide(r, v)
MapPP(pp, v) == IF pp[1] = 0 THEN pp ELSE <<pp[1], MapSq(pp[2], v), pp[3]>>
MapPreview(p, v) == IF p = <<>> THEN p ELSE <<MapSq(p[1], v), p[2], MapSide(p[3], v)>>
MapHist(h, v) == [k \in 1..Len(h) |-> <<MapBoard(h[k][1], v), MapSide(h[k][2], v)>>]
MapBoards(q, v) == [k \in 1..Len(q) |-> MapBoard(q[k], v)]

MapState(g, v) ==
  [ph |-> g.ph, b |-> MapBoard(g.b, v), s |-> MapSide(g.s, v), st |-> g.st, mn |-> g.mn,
   pp |-> MapPP(g.pp, v), tb |-> MapBoards(g.tb, v), hist |-> MapHist(g.hist, v),
   zh |-> MapHist(g.zh, v), tr |-> g.tr]

TrapsSymmetric == \A v \in Variants : {MapSq(k, v) : k \in Traps} = Traps

\* The specification itself is symmetric (checked by TLC on every reachable state of the
\* mini models): this shows that the ORACLE has no single-direction or single-colour slip.
SpecSymmetricAt(g) ==
  g.ph = 1 =>
    \A v \in 1..3 :
      LET m == MapState(g, v) IN
      /\ RuleActions(m) = MapActions(RuleActions(g), v)
      /\ Offered(m) = MapActions(Offered(g), v)
      /\ Result(m) = MapResult(Result(g), v)
      /\ \A a \in RuleActions(g) :
           /\ AfterBoard(m, MapAction(a, v)) = MapBoard(AfterBoard(g, a), v)
           /\ IsMove(a) => NextPP(m.b, m.s, m.pp, MapAction(a, v)[1], MapAction(a, v)[2])
                             = MapPP(NextPP(g.b, g.s, g.pp, a[1], a[2]), v)
=============================================================================
