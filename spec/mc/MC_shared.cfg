CONSTANTS
  Procs = {1, 2}
  Rounds = 2
  MaxNodes = 5
SPECIFICATION Spec
INVARIANT RcExact Sequential NoDanglingPublished
PROPERTY Immutable
CHECK_DEADLOCK FALSE
