INIT Init
NEXT Next
INVARIANT RoundTrip
