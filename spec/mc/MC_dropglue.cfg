CONSTANTS
  MaxNodes = 7
  MaxHandles = 3
  Discipline = "glue"
  K = 3
SPECIFICATION Spec
INVARIANT RcExact NoDangling LenExact C20_Bounded
CHECK_DEADLOCK FALSE
