------------------------------ MODULE MC_turns ------------------------------
EXTENDS ArimaaTurns, Json, IOUtils
\* roots: NDJSON {"b":[cells],"s":side} (env ROOTS) - one TLC state per root
RootRec == ndJsonDeserialize(IOEnv.ROOTS)
StdComplement == <<8, 2, 2, 2, 1, 1>>
VARIABLE k
Init == k \in 1..Len(RootRec)
Next == UNCHANGED k
AgreeInv == Agree(RootRec[k].b, RootRec[k].s)
          /\ PrintT("TURNS " \o ToString(k) \o " " \o ToString(Cardinality(ConsComplete(RootRec[k].b, RootRec[k].s))))
=============================================================================
