CONSTANTS
  Procs = {1, 2}
  N = 5
  Discipline = "try_unwrap"
SPECIFICATION Spec
INVARIANT C20_Bounded
CHECK_DEADLOCK FALSE
