CONSTANTS
  W = 3
  H = 3
  Traps = {5}
  Complement <- StdComplement
INIT Init
NEXT Next
INVARIANT AgreeInv
CHECK_DEADLOCK FALSE
