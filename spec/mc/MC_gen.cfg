CONSTANTS
  W = 8
  H = 8
  Traps = {19, 22, 43, 46}
  Complement <- StdComplement
  Roots <- NoRoots
  MaxTurns = 1
  StopAtResult = TRUE
SPECIFICATION GenSpec
VIEW GenView
INVARIANT TypeOK C01_PushCompletable C01_Continuable C03_Inv C05_NoThird C06_ImplExact C06_OnlyEnding C06_Truncation C07_Inv C10_Inv C12_Inv C13_Inv C14_Inv C19_Inv
PROPERTY C02_Action C03_Action C05_Changed
CHECK_DEADLOCK FALSE
