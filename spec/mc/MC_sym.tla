------------------------------- MODULE MC_sym -------------------------------
EXTENDS ArimaaSym, TLC
CONSTANTS Roots, MaxTurns
VARIABLE g
Init == g \in Roots
Next == \E a \in Offered(g) : g' = Apply(g, a)
Spec == Init /\ [][Next]_g
TurnBound == Len(g.hist) <= MaxTurns
Sym == TrapsSymmetric /\ SpecSymmetricAt(g)
StdComplement == <<8, 2, 2, 2, 1, 1>>
B33a == <<12, 0, 0,
          0,  0, 7,
          2,  0, 6>>
B33b == <<0, 11, 0,
          7,  0, 1,
          0,  5, 0>>
B33c == <<9,  0, 8,
          0,  0, 0,
          3,  0, 4>>
Roots33 == {ParsedState(b, s, 2) : b \in {B33a, B33b, B33c}, s \in {Gold, Silver}}
B44 == <<0, 12, 7, 0,
         0,  0, 0, 8,
         0,  2, 0, 0,
         1,  6, 0, 0>>
Roots44 == {ParsedState(B44, s, 2) : s \in {Gold, Silver}}
=============================================================================
