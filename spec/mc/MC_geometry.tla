---------------------------- MODULE MC_geometry ----------------------------
(***************************************************************************)
(* The geometric fact behind C13 ("no single step removes more than one    *)
(* piece") and behind the unreduced use of the lemma in C02/C10.           *)
(*                                                                         *)
(* A step i -> j changes the support of pieces only around i and j:        *)
(*   (a) the moved piece itself is removed iff j is a trap and it has no   *)
(*       friend next to j;                                                 *)
(*   (b) a piece on a trap T next to i is removed iff the moved piece was  *)
(*       its last friendly neighbour.                                      *)
(* Two pieces can go in one step only if (a) and (b) both apply, or (b)    *)
(* applies for two traps; both need a square i that is next to (or on) two *)
(* different trap squares.  TrapsApart says there is none.  TLC checks it  *)
(* for the real board, and shows that it FAILS for the 4x4 board with      *)
(* traps two squares apart on which TLC found a double capture (DESIGN.md  *)
(* section 13.3); and it checks the lemma itself (OneCapture) exhaustively *)
(* for every placement of up to three pieces around every trap of the real *)
(* board, each piece of either colour.                                     *)
(***************************************************************************)
EXTENDS ArimaaBoard, TLC

TrapsNear(x) == {t \in Traps : t = x \/ t \in Adj[x]}
TrapsApart == \A x \in Sq : Cardinality(TrapsNear(x)) <= 1

\* the lemma, exhaustively for boards whose pieces all stand within distance 1 of one trap
\* square plus one arbitrary extra piece: every step on such a board removes at most one piece
Zone(t) == {t} \cup Adj[t]
BoardsAround(t) ==
  {[k \in Sq |-> IF k = p1[1] THEN p1[2] ELSE IF k = p2[1] THEN p2[2] ELSE IF k = p3[1] THEN p3[2] ELSE 0] :
      p1 \in Zone(t) \X {1, 7}, p2 \in Zone(t) \X {2, 8}, p3 \in Sq \X {3, 9}}
OneCapture ==
  \A t \in Traps : \A b \in BoardsAround(t) :
     \A i \in Sq, d \in Dirs :
        (b[i] # 0 /\ Nbr[i][d] # 0 /\ b[Nbr[i][d]] = 0) =>
           Cardinality(CapturedSq(MoveRaw(RemoveTrapped(b), i, d)) ) <= 1

VARIABLE x
Init == x = 0
Next == x' = x
=============================================================================
