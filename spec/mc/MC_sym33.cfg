CONSTANTS
  W = 3
  H = 3
  Traps = {5}
  Complement <- StdComplement
  Roots <- Roots33
  MaxTurns = 2
SPECIFICATION Spec
CONSTRAINT TurnBound
INVARIANT Sym
CHECK_DEADLOCK FALSE
