------------------------------ MODULE MC_moves ------------------------------
(***************************************************************************)
(* The README's worked example as a statement about the specification:     *)
(* from the "basic setup" (rabbits in front, c d h c e h d c behind) Gold   *)
(* has 2467 unique first moves - distinct boards after a complete legal    *)
(* turn that changes the position.  The engine's doc test asserts 2467 for *)
(* the implementation; here TLC counts the specification's turn ends.  The *)
(* view forgets the order of the steps (the per-turn board record) exactly *)
(* like the example's transposition pruning does.                          *)
(***************************************************************************)
EXTENDS ArimaaGame

StdComplement == <<8, 2, 2, 2, 1, 1>>
\* rank 8: c d h c e h d c (Silver), rank 7: rabbits; rank 2: rabbits, rank 1: c d h c e h d c (Gold)
Basic == << 8, 9, 10, 8, 12, 10, 9, 8,
            7, 7, 7, 7, 7, 7, 7, 7,
            0, 0, 0, 0, 0, 0, 0, 0,
            0, 0, 0, 0, 0, 0, 0, 0,
            0, 0, 0, 0, 0, 0, 0, 0,
            0, 0, 0, 0, 0, 0, 0, 0,
            1, 1, 1, 1, 1, 1, 1, 1,
            2, 3, 4, 2, 6, 4, 3, 2 >>
MovesRoots == {ParsedState(Basic, Gold, 2)}
MovesView == <<g.b, g.s, g.st, g.pp>>
\* only Gold's first turn is expanded; the turn-end states (Silver to move) are found but not expanded
MovesNext == g.s = Gold /\ Len(g.hist) = 1 /\ Next
MovesSpec == Init /\ [][MovesNext]_vars
GoldOnly == g.s = Gold      \* as a CONSTRAINT: leaves only the mid-turn states
\* number of first moves = (distinct states of MC_moves.cfg) - (distinct states of MC_moves_mid.cfg);
\* lib/props.py compares it with the README's 2467
=============================================================================
