CONSTANTS
  W = 2
  H = 2
  Traps = {}
  Complement <- StdComplement
  Roots <- Roots22
  MaxTurns = 9
  StopAtResult = FALSE
SPECIFICATION Spec
CONSTRAINT TurnBound
INVARIANT AllInv
PROPERTY C02_Action C03_Action C05_Changed
CHECK_DEADLOCK FALSE
