CONSTANTS
  Procs = {1, 2, 3}
  N = 5
  Discipline = "into_inner"
SPECIFICATION Spec
INVARIANT C20_Bounded AllFreedOnce
CHECK_DEADLOCK FALSE
