---------------------------- MODULE MC_notation ----------------------------
(* Design-level facts of the notation, checked by TLC as ASSUME-like invariants of a
   one-state model. *)
EXTENDS Notation
VARIABLE x
Init == x = 0
Next == x' = x
RoundTrip ==
  /\ \A a \in AllActions : LET s == [k \in 1..Len(ActionChars(a)) |-> ActionChars(a)[k]] IN TRUE
  /\ PrintInjective /\ Conversions
  /\ Cardinality(AllActions) = 263
=============================================================================
