CONSTANTS
  W = 4
  H = 4
  Traps = {6, 11}
INIT Init
NEXT Next
INVARIANT TrapsApart
