CONSTANTS
  W = 3
  H = 3
  Traps = {5}
  Complement <- StdComplement
  Roots <- Roots33
  MaxTurns = 2
SPECIFICATION Spec
CONSTRAINT TurnBound
INVARIANT C08_Scratch C08_History C08_Injective
CHECK_DEADLOCK FALSE
