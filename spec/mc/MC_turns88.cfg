CONSTANTS
  W = 8
  H = 8
  Traps = {19, 22, 43, 46}
  Complement <- StdComplement
INIT Init
NEXT Next
INVARIANT AgreeInv
CHECK_DEADLOCK FALSE
