CONSTANTS
  W = 8
  H = 8
  Traps = {19, 22, 43, 46}
  Complement <- StdComplement
  Roots <- MovesRoots
  MaxTurns = 1
  StopAtResult = TRUE
SPECIFICATION MovesSpec
VIEW MovesView
CHECK_DEADLOCK FALSE
