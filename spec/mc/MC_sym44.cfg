CONSTANTS
  W = 4
  H = 4
  Traps = {6, 7, 10, 11}
  Complement <- StdComplement
  Roots <- Roots44
  MaxTurns = 1
SPECIFICATION Spec
CONSTRAINT TurnBound
INVARIANT Sym
CHECK_DEADLOCK FALSE
