CONSTANTS
  W = 3
  H = 5
  Traps = {}
  Complement <- SmallComplement
  Roots <- SetupRoots
  MaxTurns = 0
  StopAtResult = FALSE
SPECIFICATION Spec
CONSTRAINT TurnBound
INVARIANT C09_Squares C09_Offered C09_Phases C10_Inv C19_Inv C03_Inv
PROPERTY C09_Step
CHECK_DEADLOCK FALSE
