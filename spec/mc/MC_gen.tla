------------------------------- MODULE MC_gen -------------------------------
(***************************************************************************)
(* Behaviour generation on the real 8x8 geometry (spec -> implementation). *)
(* Roots are read from an NDJSON file (environment variable ROOTS), one     *)
(* start-of-turn position per line: {"b":[64 cells],"s":side,"mn":n}.      *)
(* TLC explores every behaviour of the specification from every root for  *)
(* MaxTurns completed turns, checks the design invariants of ArimaaGame on *)
(* every state, and emits one line "P <root> <path>" per DISTINCT state    *)
(* (the disabled action Emit is evaluated exactly once per state taken     *)
(* from the queue; the history variable path is hidden by the VIEW).  The  *)
(* harness binary `replay` drives the real engine along all emitted paths  *)
(* and the resulting observations are judged by ArimaaTrace.               *)
(***************************************************************************)
EXTENDS ArimaaGame, Json, IOUtils

RootRec == ndJsonDeserialize(IOEnv.ROOTS)
StdComplement == <<8, 2, 2, 2, 1, 1>>
NoRoots == {}

VARIABLES path, rid
gvars == <<g, path, rid>>

GenInit == \E k \in 1..Len(RootRec) :
             /\ rid = k /\ path = <<>>
             /\ g = ParsedState(RootRec[k].b, RootRec[k].s, RootRec[k].mn)

\* a state is expanded while fewer than MaxTurns turns (0: the root's own bound mt) have been
\* completed since the root
Expand == Len(g.hist) <= (IF MaxTurns = 0 THEN RootRec[rid].mt ELSE MaxTurns)

\* A root may restrict generation to a region ("reg": list of squares, empty = no restriction):
\* only steps that start and end inside the region (and passes) are FOLLOWED.  This selects a
\* subset of the behaviours of the specification - deep multi-turn games in which only a few
\* pieces shuttle - while the engine is still judged on the complete action lists of every
\* visited state.
Region(k) == {RootRec[k].reg[i] : i \in 1..Len(RootRec[k].reg)}
Followed(k, a) == \/ Region(k) = {} \/ ~IsMove(a)
                  \/ (a[1] \in Region(k) /\ Nbr[a[1]][a[2]] \in Region(k))

GenAct == /\ Expand /\ (~StopAtResult \/ Result(g) = 0)
          /\ \E a \in Offered(g) : /\ Followed(rid, a)
                                   /\ g' = Apply(g, a) /\ path' = Append(path, a)
          /\ UNCHANGED rid

Emit == PrintT("P " \o ToString(rid) \o " " \o ToString(path)) /\ FALSE /\ UNCHANGED gvars

GenNext == GenAct \/ Emit
GenSpec == GenInit /\ [][GenNext]_gvars
GenView == <<g, rid>>

\* A coarser view for deep witness searches: the future of a game depends on the history only
\* through HOW OFTEN each position has occurred, not in which order, so two states that agree on
\* everything else and on the occurrence counts are bisimilar.  (hist/zh are replaced by the set
\* of <<position, count>> pairs.)
Occurrences(h) == {<<h[k], CountOcc(h, h[k])>> : k \in 1..Len(h)}
CountView == <<g.ph, g.b, g.s, g.st, g.pp, g.tb, g.tr, Occurrences(g.hist), Occurrences(g.zh), rid>>

\* reachability targets used to find witnesses of rare states (run as "never" invariants)
NeverAllWithheld == ~(g.ph = 1 /\ g.st > 0 /\ RuleActions(g) # {} /\ Offered(g) = {})
\* all rule actions withheld mid-turn although at least two different steps exist
NeverAllWithheld2 == ~(g.ph = 1 /\ g.st > 0 /\ Offered(g) = {}
                        /\ Cardinality({a \in RuleActions(g) : IsMove(a)}) >= 2)
\* the only offered actions are pull completions (own steps impossible, pass withheld)
NeverPullOnly == ~(g.ph = 1 /\ g.st > 0 /\ Offered(g) # {}
                    /\ Offered(g) \subseteq (Pulls(g.b, g.s, g.pp) \ OwnSteps(g.b, g.s)))
\* the only offered actions are push starts
NeverPushOnly == ~(g.ph = 1 /\ g.st > 0 /\ Offered(g) # {}
                    /\ Offered(g) \subseteq (PushStarts(g.b, g.s) \ (OwnSteps(g.b, g.s) \cup Pulls(g.b, g.s, g.pp))))
\* a pending push at step 3 with two possible completions, both withheld
NeverPushBlocked2 == ~(g.ph = 1 /\ g.st = 3 /\ g.pp[1] = 2 /\ Offered(g) = {}
                        /\ Cardinality(PushCompletions(g.b, g.s, g.pp)) >= 2)
NeverThirdBlocked == ~(\E a \in RuleActions(g) : Withheld(g, a) /\ AfterBoard(g, a) # TurnStartBoard(g))
=============================================================================
