CONSTANTS
  W = 8
  H = 8
  Traps = {19, 22, 43, 46}
  Complement <- StdComplement
  Roots <- SetupRoots
  MaxTurns = 0
  StopAtResult = FALSE
SPECIFICATION Spec
VIEW SetupView
CONSTRAINT TurnBound
INVARIANT C09_Squares C09_Offered C09_Phases C10_Inv C19_Inv C03_Inv
PROPERTY C09_Step
CHECK_DEADLOCK FALSE
