CONSTANTS
  W = 8
  H = 8
  Traps = {19, 22, 43, 46}
INIT Init
NEXT Next
INVARIANT TrapsApart OneCapture
