------------------------------ MODULE MC_micro ------------------------------
(* Exhaustive model: tiny boards, whole games up to MaxTurns completed turns.  *)
(* Purpose: the repetition design (C05, C06, C07), turn structure (C03).       *)
EXTENDS ArimaaGame

StdComplement == <<8, 2, 2, 2, 1, 1>>

\* board literals are written top rank first
B22a == <<6, 0,
          0, 12>>            \* Gold elephant a2, Silver elephant b1 (2x2)
B22b == <<4, 0,
          0, 10>>
B32a == <<6, 0, 0,
          0, 0, 11>>          \* 3x2: Gold elephant, Silver camel
B32r == <<0, 6, 0,
          7, 0, 11>>          \* 3x2 with a silver rabbit that the elephant can push around
B33t == <<12, 0, 0,
          0,  0, 0,
          2,  0, 6>>          \* 3x3, centre trap
RootsOf(bs) == {ParsedState(b, s, 2) : b \in bs, s \in {Gold, Silver}}
\* 3x3 with centre trap (square 5): elephant+cat vs camel+rabbit, rabbit vs rabbit etc.
B33a == <<12, 0, 0,
          0,  0, 7,
          2,  0, 6>>
B33b == <<0, 11, 0,
          7,  0, 1,
          0,  5, 0>>
B33c == <<9,  0, 8,
          0,  0, 0,
          3,  0, 4>>
\* 4x3 with traps at 6 and 7
B43a == <<12, 0, 0, 7,
          0,  0, 0, 0,
          1,  2, 0, 6>>
B43b == <<0, 10, 8, 0,
          0,  0, 0, 0,
          0,  3, 5, 0>>
\* 4x4 with traps at 6 and 11
B44a == <<0, 12, 7, 0,
          0,  0, 0, 0,
          0,  0, 0, 0,
          1,  6, 2, 0>>
Roots33a == RootsOf({B33a, B33b, B33c})
Roots43 == RootsOf({B43a, B43b})
Roots44 == RootsOf({B44a})
Roots22 == RootsOf({B22a, B22b})
Roots32 == RootsOf({B32a})
Roots32r == RootsOf({B32r})
Roots33 == RootsOf({B33t})
=============================================================================
