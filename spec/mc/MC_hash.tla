------------------------------ MODULE MC_hash ------------------------------
(* The game with the feature-set hash carried along incrementally (C08, design level). *)
EXTENDS ArimaaHash, TLC
CONSTANTS Roots, MaxTurns
VARIABLES g, zf, zhf    \* zhf: the hashes recorded as history, parallel to g.zh

vars == <<g, zf, zhf>>
RootHash(r) == IF r.ph = 1 THEN Scratch(r.b, r.s, r.st) ELSE {FInit}
Init == /\ g \in Roots /\ zf = RootHash(g)
        /\ zhf = IF g.ph = 1 THEN <<RootHash(g)>> ELSE <<>>
Next == \E a \in Offered(g) :
          LET g2 == Apply(g, a)  z2 == ZApply(zf, g, a, g2) IN
          /\ g' = g2 /\ zf' = z2
          /\ zhf' = IF g2.ph = 1 /\ g2.st = 0
                    THEN Append(IF Len(g2.zh) = 1 THEN <<>> ELSE zhf, z2)
                    ELSE IF g2.zh = <<>> THEN <<>> ELSE zhf
Spec == Init /\ [][Next]_vars
TurnBound == Len(g.hist) <= MaxTurns

\* C08: path independence of the incremental hash, and of the recorded history
C08_Scratch == zf = IF g.ph = 1 THEN Scratch(g.b, g.s, g.st) ELSE ScratchSetup(g.b, g.s)
C08_History == g.ph = 1 =>
                 /\ Len(zhf) = Len(g.zh)
                 /\ \A k \in 1..Len(zhf) : zhf[k] = Scratch(g.zh[k][1], g.zh[k][2], 0)
\* the engine's own repetition tests, on hashes, decide like the exact-board rule (no collision
\* is possible in the feature model: Scratch is injective)
C08_Injective == \A k \in 1..Len(g.hist) : Scratch(g.hist[k][1], g.hist[k][2], 0) = zf
                    => (g.hist[k][1] = g.b /\ g.hist[k][2] = g.s /\ g.st = 0)
StdComplement == <<8, 2, 2, 2, 1, 1>>
SmallComplement == <<2, 0, 0, 0, 1, 1>>
B33a == <<12, 0, 0,
          0,  0, 7,
          2,  0, 6>>
B33b == <<0, 11, 0,
          7,  0, 1,
          0,  5, 0>>
Roots33 == {ParsedState(b, s, 2) : b \in {B33a, B33b}, s \in {Gold, Silver}}
RootsSetup == {InitialState}
=============================================================================
