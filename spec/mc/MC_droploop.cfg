CONSTANTS
  MaxNodes = 7
  MaxHandles = 3
  Discipline = "loop"
  K = 1
SPECIFICATION Spec
INVARIANT RcExact NoDangling LenExact C20_Bounded
CHECK_DEADLOCK FALSE
