CONSTANTS
  Procs = {1, 2, 3}
  Rounds = 1
  MaxNodes = 4
SPECIFICATION Spec
INVARIANT RcExact Sequential NoDanglingPublished
PROPERTY Immutable
CHECK_DEADLOCK FALSE
