CONSTANTS
  W = 2
  H = 5
  Traps = {}
  Complement <- SmallComplement
  Roots <- RootsSetup
  MaxTurns = 2
SPECIFICATION Spec
CONSTRAINT TurnBound
INVARIANT C08_Scratch C08_History C08_Injective
CHECK_DEADLOCK FALSE
