------------------------------ MODULE MC_setup ------------------------------
(***************************************************************************)
(* C09 at design level: the whole setup phase with the real complement on  *)
(* the real board.  The 64 864 800 orders per side are not enumerated:     *)
(* which placements are offered, where the piece goes and what happens to  *)
(* side / phase / counters depend only on (side, how many pieces of each   *)
(* type each side has placed) - the VIEW below - while the cell written    *)
(* depends only on (side, type, index).  TLC explores all count vectors    *)
(* (972 per side) and every placement from each, and checks the statement  *)
(* of C09 on them.  MC_setupfull runs the same model WITHOUT the view on a *)
(* 3-file board with a reduced complement as a check that hiding the       *)
(* arrangement loses nothing.                                              *)
(***************************************************************************)
EXTENDS ArimaaGame

StdComplement == <<8, 2, 2, 2, 1, 1>>
SmallComplement == <<3, 1, 0, 0, 1, 1>>      \* 6 pieces on a 3-file board
SetupRoots == {InitialState}

Placed(s) == Cardinality({i \in Sq : g.b[i] # 0 /\ Owner(g.b[i]) = s})
Counts == [c \in 1..12 |-> CountCell(g.b, c)]
SetupView == <<g.ph, g.s, g.mn, g.st, g.pp, Counts>>

\* the k-th piece (k = 0..2W-1) of a side goes to this square
HomeSquareNo(s, k) == IF s = Gold THEN (H - 2) * W + k + 1 ELSE k + 1

C09_Squares ==
  /\ \A s \in {Gold, Silver} :
       {i \in Sq : g.b[i] # 0 /\ Owner(g.b[i]) = s} = {HomeSquareNo(s, k) : k \in 0..(Placed(s) - 1)}
  /\ g.ph = 0 => NextHomeSquare(g.b, g.s) = HomeSquareNo(g.s, Placed(g.s))
C09_Offered ==
  g.ph = 0 => /\ Offered(g) = {PlaceAct(t) : t \in {u \in Types : CountCell(g.b, Cell(g.s, u)) < Complement[u]}}
              /\ Offered(g) # {}
C09_Phases ==
  /\ (g.ph = 0 /\ g.s = Gold)   => Placed(Silver) = 0 /\ Placed(Gold) < 2 * W
  /\ (g.ph = 0 /\ g.s = Silver) => Placed(Gold) = 2 * W /\ Placed(Silver) < 2 * W
  /\ g.ph = 0 => g.mn = 1 /\ g.st = 0 /\ g.pp = NoPP /\ g.tb = <<>> /\ Result(g) = 0
  /\ g.ph = 1 => /\ Placed(Gold) = 2 * W /\ Placed(Silver) = 2 * W
                 /\ \A c \in 1..12 : CountCell(g.b, c) = Complement[Type(c)]
                 /\ g.s = Gold /\ g.mn = 2 /\ g.st = 0 /\ g.pp = NoPP
                 /\ g.hist = <<<<g.b, Gold>>>> /\ g.zh = g.hist
C09_Step ==
  [][ g.ph = 0 =>
        \E t \in Types :
          /\ CountCell(g.b, Cell(g.s, t)) < Complement[t]
          /\ g'.b = [g.b EXCEPT ![HomeSquareNo(g.s, Placed(g.s))] = Cell(g.s, t)] ]_vars
=============================================================================
