CONSTANTS
  W = 8
  H = 8
  Traps = {19, 22, 43, 46}
  Complement <- StdComplement
  Roots <- NoRoots
  MaxTurns = 0
  StopAtResult = TRUE
INIT GenInit
NEXT GenAct
VIEW CountView
INVARIANT NeverAllWithheld2
CHECK_DEADLOCK FALSE
