---------------------------- MODULE ArimaaTrace ----------------------------
(***************************************************************************)
(* Trace specification: validates an NDJSON log of the real engine         *)
(* (written by /verif/harness) against ArimaaRules.                        *)
(*                                                                         *)
(* Every event carries the complete projected state reached by one public  *)
(* transition plus the results of every public query in that state.  The   *)
(* trace state always ADOPTS the logged projection; what the specification *)
(* predicts (Apply, RuleActions, Offered, Result, ...) is compared with    *)
(* the logged values inside the per-property conjuncts C01..C19, selected  *)
(* by the environment variable PROP ("ALL" = every conjunct).  Ghost       *)
(* fields (hist, tb, zh, tr) are maintained by the specification from the  *)
(* logged boards and are never read from the log.                          *)
(*                                                                         *)
(* Events form a tree walk: an "act" event first pops e.pop states from    *)
(* the stack, applies e.a to the new top and then either pushes the child  *)
(* (e.push = 1) or replaces the top by it.  A "reset" starts a new root.   *)
(* A "panic" event has no action here: the trace is rejected at that line. *)
(***************************************************************************)
EXTENDS ArimaaRules, Diagram, TLC, Json, IOUtils, SequencesExt

StdComplement == <<8, 2, 2, 2, 1, 1>>

Rec  == ndJsonDeserialize(IOEnv.TRACE)
PROP == IOEnv.PROP

VARIABLES l,       \* index of the next event to consume
          stack    \* sequence of state records, the top is the current state

tvars == <<l, stack>>

\* "ALL" = every conjunct except C17's (its field is only filled when the harness is asked to)
Enforced(p) == (PROP = "ALL" /\ p # "C17") \/ PROP = p

\* A root that came out of the parser with an unsupported piece already standing on a trap (the parser
\* does not validate) is not a position of the game: the statements that assume legal positions (a
\* pending push can be completed, one step removes one piece, ...) do not apply to the game that
\* follows.  C02 and C10 do speak about it ("every piece standing on a trap with no friendly neighbour
\* is removed", "once any action has been applied no piece stands on a trap unsupported"), so those
\* two conjuncts - and only those - are evaluated on such games (field uc of the state).
En(p, st) == Enforced(p) /\ (~st.uc \/ p \in {"C02", "C10"})

\* a failing conjunct reports itself and is false
Chk(p, what, cond) ==
  IF cond THEN TRUE ELSE PrintT("FAIL " \o p \o " line " \o ToString(l) \o " : " \o what) /\ FALSE

\* counters for non-vacuity (registers; the validator runs with -workers 1)
Bump(i) == TLCSet(i, TLCGet(i) + 1)
CountIf(i, c) == IF c THEN Bump(i) ELSE TRUE
NCounters == 24

SetOf(q) == {q[k] : k \in 1..Len(q)}
NoDup(q) == Cardinality(SetOf(q)) = Len(q)
Rev(q) == [k \in 1..Len(q) |-> q[Len(q) - k + 1]]
TotalMaterial(b) == Cardinality({i \in Sq : b[i] # 0})

---------------------------------------------------------------------------
(* The state adopted from an event.  pre is the parent state (or the       *)
(* record itself for a reset).                                             *)

RootState(e) ==
  [ph |-> e.ph, b |-> e.b, s |-> e.s, st |-> e.st, mn |-> e.mnl, mnp |-> e.mn, pp |-> e.pp,
   tb |-> <<>>,
   hist |-> IF e.ph = 1 THEN <<<<e.b, e.s>>>> ELSE <<>>,
   hx   |-> IF e.ph = 1 THEN <<e.th>> ELSE <<>>,
   zh   |-> IF e.ph = 1 THEN <<<<e.b, e.s>>>> ELSE <<>>,
   tr |-> FALSE,
   lo |-> SetOf(e.off), ln |-> e.norep, lv |-> e.pv, ldg |-> e.dg, seen |-> <<>>,
   uc |-> ~TrapClean(e.b)]

ChildState(pre, e) ==
  LET ended == e.ph = 1 /\ e.st = 0
      cap   == TotalMaterial(e.b) < TotalMaterial(pre.b)
      fresh == pre.ph = 0            \* the play phase begins with this event
  IN
  [ph |-> e.ph, b |-> e.b, s |-> e.s, st |-> e.st, mn |-> e.mnl, mnp |-> e.mn, pp |-> e.pp,
   tb |-> IF e.ph = 1 /\ e.st > 0 THEN Append(pre.tb, pre.b) ELSE <<>>,
   hist |-> IF ~ended THEN pre.hist
            ELSE IF fresh THEN <<<<e.b, e.s>>>> ELSE Append(pre.hist, <<e.b, e.s>>),
   hx   |-> IF ~ended THEN pre.hx
            ELSE IF fresh THEN <<e.th>> ELSE Append(pre.hx, e.th),
   zh   |-> IF ~ended THEN (IF cap THEN <<>> ELSE pre.zh)
            ELSE IF fresh THEN <<<<e.b, e.s>>>>
            ELSE Append(IF pre.tr \/ cap THEN <<>> ELSE pre.zh, <<e.b, e.s>>),
   tr |-> IF ended THEN FALSE ELSE (pre.tr \/ cap),
   lo |-> SetOf(e.off), ln |-> e.norep, lv |-> e.pv, ldg |-> e.dg, seen |-> <<>>,
   uc |-> pre.uc]

\* C18: the digests (of the complete observation) of the children seen so far, per action
\* (a pair: digest of the complete observation, digest of the move-generation answers only)
Remember(st, a, dg, ldg) ==
  [st EXCEPT !.seen = [x \in DOMAIN st.seen \cup {a} |-> IF x = a THEN <<dg, ldg>> ELSE st.seen[x]]]

---------------------------------------------------------------------------
(* Per-property conjuncts.  e = event, cs = adopted child state,           *)
(* pre = parent state, a = action, n = Apply(pre, a) the spec's successor. *)

\* ---- conjuncts on the observed state alone (resets and acts) ----

C01_State(e, cs) ==
  e.ph = 1 =>
    /\ Chk("C01", "rule-only list differs from the legal steps",
           SetOf(e.norep) = RuleActions(cs))
    /\ Chk("C01", "duplicate action", NoDup(e.norep) /\ NoDup(e.off))
    /\ Chk("C01", "pass offered wrongly",
           (PassAct \in SetOf(e.norep)) <=> CanPassRule(e.st, e.pp))
    /\ CountIf(1, e.pp[1] = 2) /\ CountIf(2, e.pp[1] = 1 /\ Pulls(e.b, e.s, e.pp) # {})
    /\ CountIf(3, \E i \in Sq : Mine(e.b, i, e.s) /\ Frozen(e.b, i))

ResultAtTurnStart(b, s) ==
  LET A == Other(s)  B == s IN
  IF RabbitOnGoal(b, A) THEN A ELSE IF RabbitOnGoal(b, B) THEN B
  ELSE IF NoRabbits(b, B) THEN A ELSE IF NoRabbits(b, A) THEN B
  ELSE IF RuleMoves(b, s, 0, NoPP) = {} THEN A ELSE 0

C04_State(e, cs) ==
  /\ Chk("C04", "result reported during setup", e.ph = 0 => e.term = 0)
  /\ Chk("C04", "wrong result at start of turn",
         (e.ph = 1 /\ e.st = 0) => e.term = ResultAtTurnStart(e.b, e.s))
  /\ Chk("C04", "goal or elimination decided mid-turn",
         (e.ph = 1 /\ e.st > 0 /\ e.off # <<>>) => e.term = 0)
  /\ Chk("C04", "mid-turn result is not a loss for the mover",
         (e.ph = 1 /\ e.st > 0 /\ e.off = <<>>) => e.term = Other(e.s))
  /\ CountIf(4, e.ph = 1 /\ e.st = 0 /\ e.term # 0)
  /\ CountIf(5, e.ph = 1 /\ e.st > 0 /\ (RabbitOnGoal(e.b, Gold) \/ RabbitOnGoal(e.b, Silver)
                                           \/ NoRabbits(e.b, Gold) \/ NoRabbits(e.b, Silver)))

\* C05 quantifies over all games played through offered actions: an OFFERED turn-ending action whose
\* result equals the turn's starting board, or would be a third occurrence, is a game that breaks it
C05_State(e, cs) ==
  e.ph = 1 =>
    Chk("C05", "an offered action would end the turn on an unchanged board or on a third occurrence",
        \A k \in 1..Len(e.off) : ~Withheld(cs, e.off[k]))

C06_State(e, cs) ==
  e.ph = 1 =>
    /\ Chk("C06", "offered list is not the rule-only list minus the withheld turn-ending actions",
           e.off = SelectSeq(e.norep, LAMBDA a : ~Withheld(cs, a)))
    /\ CountIf(6, \E a \in SetOf(e.norep) : Withheld(cs, a) /\ AfterBoard(cs, a) = TurnStartBoard(cs))
    /\ CountIf(7, \E a \in SetOf(e.norep) : Withheld(cs, a) /\ AfterBoard(cs, a) # TurnStartBoard(cs))
    /\ CountIf(8, \E a \in SetOf(e.norep) : a # PassAct /\ Withheld(cs, a))

C07_State(e, cs) ==
  /\ Chk("C07", "no result but nothing offered", e.term = 0 => e.off # <<>>)
  /\ Chk("C07", "mid-turn result does not match emptiness of the offered list",
         (e.ph = 1 /\ e.st > 0) => ((e.term # 0) <=> (e.off = <<>>)))
  /\ Chk("C07", "mid-turn result is not a loss for the player on move",
         (e.ph = 1 /\ e.st > 0 /\ e.term # 0) => e.term = Other(e.s))
  /\ Chk("C07", "can_pass(true) differs from the offered list",
         (e.cp[1] = 1) <=> (PassAct \in SetOf(e.off)))
  /\ Chk("C07", "can_pass(false) differs from the rule-only list",
         (e.cp[2] = 1) <=> (PassAct \in SetOf(e.norep)))
  /\ Chk("C07", "has_move differs from the offered list",
         (e.hm = 0) <=> (e.off # <<>>))
  /\ Chk("C07", "has_move names the wrong loser", e.hm \in {0, Other(e.s)})
  /\ CountIf(9, e.ph = 1 /\ e.st > 0 /\ e.off = <<>>)
  /\ CountIf(10, e.ph = 1 /\ e.off = <<>> /\ e.norep # <<>>)

C08_State(e, cs) ==
  e.ph = 1 =>
    /\ Chk("C08", "transposition hash differs from the from-scratch hash",
           e.th = e.sc /\ e.th = e.sc2)
    /\ Chk("C08", "recorded start-of-turn hashes differ from those positions' hashes",
           /\ Len(e.hh) <= Len(cs.hx) /\ e.hl = Len(e.hh)
           /\ \A k \in 1..Len(e.hh) : e.hh[k] = cs.hx[Len(cs.hx) - k + 1])
    /\ Chk("C08", "state does not compare/hash equal to an equal position", e.alt = <<1, 1>>)

C09_State(e, cs) ==
  e.ph = 0 =>
    /\ Chk("C09", "offered placements differ from the incomplete piece types",
           SetOf(e.off) = {PlaceAct(t) : t \in Placeable(e.b, e.s)} /\ NoDup(e.off)
             /\ e.off = e.norep)
    /\ Chk("C09", "setup state with wrong counters",
           e.mn = Limbs(1) /\ e.term = 0 /\ e.hm = 0)

CellsOf(e, c) == {k \in Sq : e.b[k] = c}
C10_State(e, cs) ==
  LET p1 == SetOf(e.bb[1])  all == SetOf(e.bb[2])
      \* type boards in the spec's type order R C D H M E  (bb lists e m h d c r)
      tb == [t \in Types |-> SetOf(e.bb[9 - t])]
  IN
  /\ Chk("C10", "type boards overlap",
         \A t1, t2 \in Types : t1 # t2 => tb[t1] \cap tb[t2] = {})
  /\ Chk("C10", "all-pieces board is not the union of the type boards",
         all = UNION {tb[t] : t \in Types})
  /\ Chk("C10", "gold mask outside the occupied squares", p1 \subseteq all)
  /\ Chk("C10", "square lookup disagrees with the bitboards",
         \A k \in Sq : IF e.b[k] = 0 THEN k \notin all
                       ELSE k \in tb[Type(e.b[k])] /\ ((Owner(e.b[k]) = Gold) <=> (k \in p1)))
  /\ Chk("C10", "bits_for_piece disagrees", \A c \in 1..12 : SetOf(e.bfp[c]) = CellsOf(e, c))
  /\ Chk("C10", "bits_by_piece_type disagrees", \A t \in Types : SetOf(e.bbt[t]) = tb[t])
  /\ Chk("C10", "player_piece_mask disagrees",
         SetOf(e.ppm[1]) = p1 /\ SetOf(e.ppm[2]) = all \ p1)
  /\ Chk("C10", "printed diagram disagrees with the board", e.txt = PrintPosT(e.b, e.s, LimbText(e.mn)))
  /\ Chk("C10", "more pieces than the complement", LegalMaterial(e.b))
  /\ Chk("C10", "unsupported piece on a trap after an action", e.ev = "act" => TrapClean(e.b))

PreviewTuple(b, a) ==
  IF ~IsMove(a) THEN <<>>
  ELSE LET m == MoveRaw(b, a[1], a[2])  C == CapturedSq(m) IN
       IF C = {} THEN <<>>
       ELSE LET k == CHOOSE k \in C : TRUE IN <<k, Type(m[k]), Owner(m[k])>>

C13_State(e, cs) ==
  \* the statement speaks about OFFERED actions; previews of rule actions that are withheld in this
  \* state are logged too but not judged.  A position parsed from text may already contain an
  \* unsupported piece on a trap (the parser does not validate; C10 covers what happens to it): there
  \* one step removes that piece as well, so "the one piece" is not defined - such states are judged by
  \* C02 and C10, not here.
  LET offered == IF TrapClean(e.b) THEN SetOf(e.off) ELSE {} IN
  /\ Chk("C13", "capture preview differs from what the step removes",
         Len(e.pv) = Len(e.norep) /\
         \A k \in 1..Len(e.norep) : e.norep[k] \in offered => e.pv[k] = PreviewTuple(e.b, e.norep[k]))
  /\ Chk("C13", "a step removes more than one piece",
         \A k \in 1..Len(e.norep) :
            (IsMove(e.norep[k]) /\ e.norep[k] \in offered) =>
              Cardinality(CapturedSq(MoveRaw(e.b, e.norep[k][1], e.norep[k][2]))) <= 1)
  /\ CountIf(11, \E k \in 1..Len(e.pv) : e.pv[k] # <<>>)

C14_State(e, cs) ==
  e.ph = 1 =>
    /\ Chk("C14", "boards of earlier steps differ from what was current then",
           e.pbs = Append(cs.tb, e.b))
    /\ Chk("C14", "previous boards list differs", e.prev = cs.tb)
    /\ CountIf(12, e.st = 3)

C15_State(e, cs) ==
  /\ Chk("C15", "printed form differs from the diagram of the state", e.txt = PrintPosT(e.b, e.s, LimbText(e.mn)))
  /\ Chk("C15", "printed diagram does not parse", e.rp.ok = 1)
  /\ Chk("C15", "re-parsed state differs",
         /\ e.rp.ph = 1 /\ e.rp.b = e.b /\ e.rp.s = e.s /\ e.rp.mn = e.mn
         /\ e.rp.st = 0 /\ e.rp.pp = NoPP /\ e.rp.hl = 1 /\ e.rp.same = 1)
  /\ Chk("C15", "re-parsed start-of-turn state has a different hash",
         (e.ph = 1 /\ e.st = 0) => e.rp.th = e.th)

\* C17 on reached states: the harness compared the state's hash with the from-scratch hashes of
\* all states differing from it in exactly one hashed feature (64 x 12 cell changes, side, 3 steps,
\* 640 statuses); e.c17 lists the neighbours that collide
C17_State(e, cs) ==
  /\ Chk("C17", "a reached state has the same transposition hash as a state differing in one feature: "
               \o ToString(e.c17), e.c17 = <<>>)
  /\ CountIf(22, e.c17n = 1)

\* X01 - beyond the listed properties (DESIGN.md section 9): the ORDER of the rule-only list, as the
\* implementation happens to produce it: push starts, then pull completions not yet listed, then own
\* steps - each group by direction (n, e, s, w) and, within a direction, by ascending square - then
\* the pass; with a pending push, the completions by direction.  No property demands this order (C06
\* only relates the two lists to each other); it is recorded so that an ordering change is visible.
Asc(S) == SetToSortSeq(S, LAMBDA x, y : x < y)
ByDir(A) == LET part(d) == LET q == Asc({a[1] : a \in {x \in A : x[2] = d}}) IN [k \in 1..Len(q) |-> <<q[k], d>>]
            IN part(1) \o part(2) \o part(3) \o part(4)
ImplOrder(b, s, st, pp) ==
  IF pp[1] = 2 THEN ByDir(PushCompletions(b, s, pp))
  ELSE LET ps == IF st < 3 THEN PushStarts(b, s) ELSE {}
           pl == Pulls(b, s, pp) \ ps
       IN ByDir(ps) \o ByDir(pl) \o ByDir(OwnSteps(b, s) \ (ps \cup pl))
            \o (IF CanPassRule(st, pp) THEN <<PassAct>> ELSE <<>>)
X01_State(e, cs) ==
  e.ph = 1 => Chk("X01", "order of the rule-only list differs from the recorded implementation order",
                  e.norep = ImplOrder(e.b, e.s, e.st, e.pp))

StateConjuncts(e, cs) ==
  /\ ((PROP = "X01" /\ ~cs.uc) => X01_State(e, cs))
  /\ (En("C17", cs) => C17_State(e, cs))
  /\ (En("C01", cs) => C01_State(e, cs))
  /\ (En("C04", cs) => C04_State(e, cs))
  /\ (En("C05", cs) => C05_State(e, cs))
  /\ (En("C06", cs) => C06_State(e, cs))
  /\ (En("C07", cs) => C07_State(e, cs))
  /\ (En("C08", cs) => C08_State(e, cs))
  /\ (En("C09", cs) => C09_State(e, cs))
  /\ (En("C10", cs) => C10_State(e, cs))
  /\ (En("C13", cs) => C13_State(e, cs))
  /\ (En("C14", cs) => C14_State(e, cs))
  /\ (En("C15", cs) => C15_State(e, cs))

\* ---- conjuncts on the transition pre --a--> e ----

C02_Trans(pre, a, e) ==
  pre.ph = 1 =>
    /\ Chk("C02", "a pass changed the board", a = PassAct => e.b = pre.b)
    /\ Chk("C02", "step effect is not: move one piece one square, remove unsupported trap pieces",
           IsMove(a) => C02Effect(pre.b, a[1], a[2], e.b))
    /\ Chk("C02", "material increased", \A c \in 1..12 : CountCell(e.b, c) <= CountCell(pre.b, c))
    /\ CountIf(13, TotalMaterial(e.b) < TotalMaterial(pre.b))

C03_Trans(pre, a, n, e) ==
  pre.ph = 1 =>
    /\ Chk("C03", "side, step or move number differ from the turn structure",
           /\ e.ph = 1 /\ e.s = n.s /\ e.st = n.st
           \* the move number grows by one exactly when Silver's turn ends (three-limb arithmetic)
           /\ e.mn = LimbAdd(pre.mnp, IF n.st = 0 /\ n.s # pre.s /\ pre.s = Silver THEN 1 ELSE 0))
    /\ Chk("C03", "turn end does not reset the per-turn record",
           n.st = 0 => (e.pp = NoPP /\ e.prev = <<>> /\ e.tt = 0))
    /\ Chk("C03", "step counter out of range or per-turn record of the wrong length",
           e.st \in 0..3 /\ Len(e.prev) = e.st)
    /\ CountIf(14, a = PassAct) /\ CountIf(15, IsMove(a) /\ pre.st = 3)

C05_Trans(pre, a, e, cs) ==
  (pre.ph = 1 /\ a \in pre.lo /\ e.st = 0) =>
    /\ Chk("C05", "completed turn left the board unchanged", e.b # TurnStartBoard(pre))
    /\ Chk("C05", "third occurrence of a position at a start of turn",
           CountOcc(cs.hist, Last(cs.hist)) <= 2)
    /\ CountIf(16, CountOcc(cs.hist, Last(cs.hist)) = 2)

C09_Trans(pre, a, n, e) ==
  pre.ph = 0 =>
    /\ Chk("C09", "placement did not put the piece on the next home square",
           e.b = [pre.b EXCEPT ![NextHomeSquare(pre.b, pre.s)] = Cell(pre.s, a[2])])
    /\ Chk("C09", "phase, side or counters wrong after a placement",
           e.ph = n.ph /\ e.s = n.s /\ e.mn = Limbs(n.mn) /\ e.st = 0 /\ e.pp = NoPP /\ e.prev = <<>>)
    /\ CountIf(17, n.ph = 1)

C12_Trans(pre, a, n, e, cs) ==
  pre.ph = 1 =>
    /\ Chk("C12", "push/pull status does not describe the previous step", e.pp = n.pp)
    /\ Chk("C12", "pending push: rule-only list is not the set of completions",
           e.pp[1] = 2 => (SetOf(e.norep) = PushCompletions(e.b, e.s, e.pp) /\ e.norep # <<>>))
    /\ CountIf(18, e.pp[1] = 2)
    /\ CountIf(19, IsMove(a) /\ Theirs(pre.b, a[1], pre.s) /\ n.pp = NoPP /\ pre.st < 3)

\* the preview logged in the parent for the action now played = what disappeared
C13_Trans(pre, a, e) ==
  (pre.ph = 1 /\ IsMove(a) /\ a \in pre.lo /\ TrapClean(pre.b)) =>
    LET m == MoveRaw(pre.b, a[1], a[2])
        gone == {k \in Sq : m[k] # 0 /\ e.b[k] = 0}
        idx == {k \in 1..Len(pre.ln) : pre.ln[k] = a}
    IN /\ Chk("C13", "more than one piece disappeared", Cardinality(gone) <= 1)
       /\ Chk("C13", "parent's preview differs from the piece that disappeared",
              \A k \in idx :
                 pre.lv[k] = IF gone = {} THEN <<>>
                             ELSE LET j == CHOOSE j \in gone : TRUE
                                  IN <<j, Type(m[j]), Owner(m[j])>>)

TransConjuncts(pre, a, n, e, cs) ==
  /\ (En("C02", pre) => C02_Trans(pre, a, e))
  /\ (En("C03", pre) => C03_Trans(pre, a, n, e))
  /\ (En("C05", pre) => C05_Trans(pre, a, e, cs))
  /\ (En("C09", pre) => C09_Trans(pre, a, n, e))
  /\ (En("C12", pre) => C12_Trans(pre, a, n, e, cs))
  /\ (En("C13", pre) => C13_Trans(pre, a, e))

---------------------------------------------------------------------------

\* a reset via the parser must be a start-of-turn state with a one-entry history; a reset
\* via initial() must be the empty setup state
ResetShape(e) ==
  IF e.via = "initial"
  THEN Chk("C09", "initial state is not the empty setup state",
           e.ph = 0 /\ e.b = EmptyBoard /\ e.s = Gold /\ e.mn = Limbs(1))
  ELSE Chk("C15", "parsed state is not a start-of-turn state with one history entry",
           e.ph = 1 /\ e.st = 0 /\ e.pp = NoPP /\ e.hl = 1 /\ e.prev = <<>>)

TraceInit == /\ l = 1 /\ stack = <<>>
             /\ \A i \in 1..NCounters : TLCSet(i, 0)

TraceReset ==
  /\ l <= Len(Rec) /\ Rec[l].ev = "reset"
  /\ LET e == Rec[l]  cs == RootState(e) IN
       /\ (Enforced("C09") \/ Enforced("C15")) => ResetShape(e)
       /\ StateConjuncts(e, cs)
       /\ stack' = <<cs>>
  /\ l' = l + 1

TraceAct ==
  /\ l <= Len(Rec) /\ Rec[l].ev = "act"
  /\ LET e    == Rec[l]
         base == SubSeq(stack, 1, Len(stack) - e.pop)
         pre  == base[Len(base)]
         a    == e.a
         n    == Apply(pre, a)
         cs   == ChildState(pre, e)
     IN /\ Chk("harness", "action is in neither list of the parent", a \in SetOf(pre.ln) \cup pre.lo)
        /\ TransConjuncts(pre, a, n, e, cs)
        /\ StateConjuncts(e, cs)
        /\ (Enforced("C18") =>
              Chk("C18", "the same action from the same state gave a different observation",
                  a \in DOMAIN pre.seen => pre.seen[a][1] = e.dg))
        /\ stack' = IF e.push = 1
                    THEN Append(Append(SubSeq(base, 1, Len(base) - 1), Remember(pre, a, e.dg, e.ldg)), cs)
                    ELSE Append(SubSeq(base, 1, Len(base) - 1), cs)
  /\ l' = l + 1

\* C18: a thread expanded the current state concurrently with others; only the digest of
\* its complete observation of the child is logged
TraceThreadDigest ==
  /\ l <= Len(Rec) /\ Rec[l].ev = "tdig"
  /\ LET e == Rec[l]
         base == SubSeq(stack, 1, Len(stack) - e.pop)
         pre  == base[Len(base)]
     IN /\ (Enforced("C18") =>
              /\ Chk("C18", "a thread panicked while expanding a shared state: " \o e.dg,
                     SubSeq(e.dg, 1, 6) # "panic:")
              /\ Chk("C18", "concurrent expansion differs from the sequential expansion of the same state",
                     IF e.a = <<-2, 0>> THEN e.dg = pre.ldg    \* the thread observed the shared state itself
                     ELSE e.a \in DOMAIN pre.seen /\ pre.seen[e.a][IF e.light = 1 THEN 2 ELSE 1] = e.dg))
        /\ TLCSet(20, TLCGet(20) + 1)
        /\ stack' = base
  /\ l' = l + 1

\* C18: a thread observed, while other threads were observing OTHER states, the state that the event
\* on line e.line observed sequentially: the digests must agree
TracePoolDigest ==
  /\ l <= Len(Rec) /\ Rec[l].ev = "pdig"
  /\ LET e == Rec[l] IN
       /\ (Enforced("C18") =>
             /\ Chk("C18", "a thread panicked while observing a state concurrently: " \o e.dg,
                    SubSeq(e.dg, 1, 6) # "panic:")
             /\ Chk("C18", "a state observed concurrently with other states differs from its sequential observation",
                    /\ e.line \in 1..Len(Rec) /\ Rec[e.line].ev \in {"reset", "act"}
                    /\ (IF e.light = 1 THEN Rec[e.line].ldg ELSE Rec[e.line].dg) = e.dg))
       /\ TLCSet(24, TLCGet(24) + 1)
       /\ stack' = SubSeq(stack, 1, Len(stack) - e.pop)
  /\ l' = l + 1

\* C18: the shared state observed again after the threads have joined
TraceReobserve ==
  /\ l <= Len(Rec) /\ Rec[l].ev = "reobs"
  /\ LET e == Rec[l]
         base == SubSeq(stack, 1, Len(stack) - e.pop)
         pre  == base[Len(base)]
     IN /\ (Enforced("C18") =>
              Chk("C18", "a shared state changed while threads were expanding it", e.dg = pre.ldg))
        /\ TLCSet(21, TLCGet(21) + 1)
        /\ stack' = base
  /\ l' = l + 1

\* A panic of the engine, caught by the harness.  It is a violation of the properties named in the
\* event (C19 for every query / offered action on a reachable state, C15 for parsing, C08/C17 for
\* from-scratch hashing and equality); for the other properties the rest of that game is simply not
\* observed: the driver abandons it and the next event is a reset.
TracePanic ==
  /\ l <= Len(Rec) /\ Rec[l].ev = "panic"
  /\ LET e == Rec[l] IN
       Chk(IF PROP = "ALL" THEN e.props[1] ELSE PROP, "panic in engine call: " \o e.call,
           ~(PROP = "ALL" \/ PROP \in {e.props[k] : k \in 1..Len(e.props)}))
  /\ TLCSet(23, TLCGet(23) + 1)
  /\ stack' = <<>>
  /\ l' = l + 1

TraceNext == TraceReset \/ TraceAct \/ TraceThreadDigest \/ TracePoolDigest \/ TraceReobserve \/ TracePanic

TraceSpec == TraceInit /\ [][TraceNext]_tvars

Counters == [i \in 1..NCounters |-> TLCGet(i)]

TraceAccepted ==
  LET d == TLCGet("stats").diameter IN
  /\ PrintT("COUNTS " \o ToString(Counters))
  /\ IF d - 1 = Len(Rec) THEN PrintT(<<"ACCEPTED", Len(Rec)>>)
     ELSE /\ PrintT(<<"REJECTED at line", d, "of", Len(Rec),
                      IF d <= Len(Rec) THEN Rec[d].ev ELSE "?">>)
          /\ FALSE

=============================================================================
