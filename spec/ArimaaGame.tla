----------------------------- MODULE ArimaaGame -----------------------------
(***************************************************************************)
(* The game as a state machine: one action per public transition of the    *)
(* engine (take_action of a placement, a step, a pass).  The single        *)
(* variable g holds the state record described in ArimaaRules.             *)
(***************************************************************************)
EXTENDS ArimaaRules, TLC

CONSTANTS Roots,       \* set of initial state records
          MaxTurns,    \* exploration bound: completed turns per behaviour
          StopAtResult \* TRUE: no action is taken from a state with a result

VARIABLE g

vars == <<g>>

Init == g \in Roots

Enabled == ~StopAtResult \/ Result(g) = 0

Place(t) == /\ Enabled /\ g.ph = 0 /\ PlaceAct(t) \in Offered(g)
            /\ g' = Apply(g, PlaceAct(t))

Step(i, d) == /\ Enabled /\ g.ph = 1 /\ <<i, d>> \in Offered(g)
              /\ g' = Apply(g, <<i, d>>)

Pass == /\ Enabled /\ g.ph = 1 /\ PassAct \in Offered(g)
        /\ g' = Apply(g, PassAct)

Next == \/ \E t \in Types : Place(t)
        \/ \E i \in Sq, d \in Dirs : Step(i, d)
        \/ Pass

Spec == Init /\ [][Next]_vars

\* exploration bound (a CONSTRAINT, not part of the specification)
TurnBound == Len(g.hist) <= MaxTurns

---------------------------------------------------------------------------
(* The listed properties, as far as they are statements about the design.  *)
(* Each is named after the property it belongs to.                         *)

TypeOK ==
  /\ g.ph \in {0, 1} /\ g.s \in {Gold, Silver} /\ g.st \in 0..3
  /\ g.b \in [Sq -> 0..12]
  /\ g.pp[1] \in 0..2

\* C01: a pending push can always be completed; a push is never started on the last step
C01_PushCompletable == g.pp[1] = 2 => (g.st \in 1..3 /\ PushCompletions(g.b, g.s, g.pp) # {})
\* C01: every state in the middle of a turn has a rule action (pass or completion)
C01_Continuable == (g.ph = 1 /\ g.st > 0) => RuleActions(g) # {}

\* C02: the step effect, stated declaratively and independently of StepBoard
C02_StepEffect(b, i, d, nb) == C02Effect(b, i, d, nb)
C02_Material(b, nb) == \A c \in 1..12 : CountCell(nb, c) <= CountCell(b, c)

C02_Action ==
  [][ g.ph = 1 =>
        \/ (g'.b = g.b /\ PassAct \in Offered(g) /\ g' = Apply(g, PassAct))
        \/ \E a \in Offered(g) : IsMove(a) /\ g' = Apply(g, a)
              /\ C02_StepEffect(g.b, a[1], a[2], g'.b) /\ C02_Material(g.b, g'.b) ]_vars

\* C03: turn structure
C03_Inv ==
  /\ g.st \in 0..3
  /\ g.st = Len(g.tb)
  /\ (g.st = 0 => g.pp = NoPP)
  /\ (g.ph = 0 => g.mn = 1 /\ g.st = 0)

C03_Action ==
  [][ g.ph = 1 =>
        LET ends == g'.st = 0 IN
        /\ (~ends => g'.s = g.s /\ g'.st = g.st + 1 /\ g'.mn = g.mn)
        /\ (ends  => /\ g'.s = Other(g.s) /\ g'.pp = NoPP /\ g'.tb = <<>>
                     /\ g'.mn = g.mn + (IF g.s = Silver THEN 1 ELSE 0)) ]_vars

\* C05: no completed turn leaves the board unchanged or makes a third occurrence
C05_NoThird == \A k \in 1..Len(g.hist) : CountOcc(g.hist, g.hist[k]) <= 2
C05_Changed ==
  [][ (g.ph = 1 /\ g'.st = 0) => g'.b # TurnStartBoard(g) ]_vars

\* C06: the engine's way of deciding (truncated history, capture flag) never differs
\* from the exact rule; and only turn-ending actions are withheld
C06_ImplExact == g.ph = 1 => OfferedImpl(g) = Offered(g)
C06_OnlyEnding == \A a \in RuleActions(g) \ Offered(g) : EndsTurn(g, a)
\* the lemma behind truncation: the kept history is a suffix of the full history and
\* everything before it has strictly more material
IsSuffix(z, h) == Len(z) <= Len(h) /\ \A k \in 1..Len(z) : z[k] = h[Len(h) - Len(z) + k]
TotalMaterial(b) == Cardinality({i \in Sq : b[i] # 0})
C06_Truncation ==
  g.ph = 1 =>
    /\ (g.tr => g.zh = <<>>)
    /\ IsSuffix(g.zh, g.hist)
    /\ \A k \in 1..(Len(g.hist) - Len(g.zh)) : TotalMaterial(g.hist[k][1]) > TotalMaterial(g.b)

\* C07: summary queries agree with the lists
C07_Inv ==
  /\ (Result(g) = 0 => Offered(g) # {})
  /\ (g.ph = 1 /\ g.st > 0 => ((Result(g) # 0) <=> (Offered(g) = {})))
  /\ (g.ph = 1 /\ g.st > 0 /\ Result(g) # 0 => Result(g) = Other(g.s))

\* C10: legal material, clean traps after any action
C10_Inv == LegalMaterial(g.b) /\ (g.ph = 1 => TrapClean(g.b))

\* C12: what the push/pull status can be
C12_Inv ==
  /\ (g.pp[1] = 2 => g.pp[3] # Elephant /\ g.b[g.pp[2]] = 0)
  /\ (g.pp[1] = 1 => g.pp[3] # Rabbit   /\ g.b[g.pp[2]] = 0)
  /\ (g.st = 0 => g.pp = NoPP)

\* C13: no step removes more than one piece
C13_Inv ==
  g.ph = 1 => \A a \in RuleActions(g) :
                IsMove(a) => Cardinality(CapturedSq(MoveRaw(g.b, a[1], a[2]))) <= 1

\* C14
C14_Inv == Len(g.tb) = g.st /\ (g.st = 0 => g.tb = <<>>)

\* C19: the facts that keep the engine's explicit panic sites unreachable
C19_Inv ==
  /\ (g.ph = 0 => FreeHome(g.b, g.s) # {})
  /\ (g.pp[1] = 2 => g.pp[3] # Elephant)
  /\ (g.pp[1] = 1 => g.pp[3] # Rabbit)

AllInv == /\ TypeOK /\ C01_PushCompletable /\ C01_Continuable /\ C03_Inv /\ C05_NoThird
          /\ C06_ImplExact /\ C06_OnlyEnding /\ C06_Truncation /\ C07_Inv /\ C10_Inv
          /\ C12_Inv /\ C13_Inv /\ C14_Inv /\ C19_Inv

=============================================================================
