"""Orchestration of the checks: build harness from /repo's working tree, run TLC on the
specification, record traces from the real engine, validate them with the trace
specification, write evidence, report violations.  Python 3 stdlib only."""
import concurrent.futures as cf
import glob
import hashlib
import json
import os
import re
import shutil
import subprocess
import sys
import time

VERIF = os.path.dirname(os.path.dirname(os.path.abspath(__file__)))
REPO = os.environ.get("VERIF_REPO", "/repo")
WORK = os.path.join(VERIF, "work")
SPEC = os.path.join(VERIF, "spec")
HARNESS = os.path.join(VERIF, "harness")
REPLAYS = os.path.join(VERIF, "replays")
EVIDENCE = os.path.join(VERIF, "evidence")
CP = "/opt/veriftools/tla/tla2tools.jar:/opt/veriftools/tla/CommunityModules-deps.jar"
MAXJ = int(os.environ.get("VERIF_JOBS", "14"))


class ToolError(Exception):
    pass


class Violation(Exception):
    def __init__(self, pid, replay, what):
        Exception.__init__(self, what)
        self.pid, self.replay, self.what = pid, replay, what


def log(*a):
    print(*a, flush=True)


def sh(cmd, timeout, env=None, cwd=None):
    e = dict(os.environ)
    if env:
        e.update(env)
    try:
        p = subprocess.run(cmd, cwd=cwd, env=e, stdout=subprocess.PIPE, stderr=subprocess.STDOUT,
                           timeout=timeout)
        return p.returncode, p.stdout.decode("utf-8", "replace")
    except subprocess.TimeoutExpired as ex:
        out = ex.stdout.decode("utf-8", "replace") if ex.stdout else ""
        return 124, out + "\n[timeout after %ss]" % timeout


# --------------------------------------------------------------------------------------
# building

_built = {}


def cargo_env():
    return {"CARGO_NET_OFFLINE": "true", "RUSTFLAGS": os.environ.get("RUSTFLAGS", "")}


def scratch_crate(crate):
    """The crates depend on the path /repo.  When VERIF_REPO names another checkout (development only: a scratch
    worktree carrying a seeded change, so that /repo itself is not touched), build a copy of the crate whose
    dependency path is rewritten."""
    if os.path.abspath(REPO) == "/repo":
        return crate
    tag = hashlib.md5(os.path.abspath(REPO).encode()).hexdigest()[:8]
    dst = os.path.join(WORK, "scratch_%s" % tag, os.path.basename(crate))
    os.makedirs(dst, exist_ok=True)
    for item in ("src", "Cargo.toml", "Cargo.lock", ".cargo"):
        src = os.path.join(crate, item)
        d = os.path.join(dst, item)
        if os.path.isdir(src):
            shutil.rmtree(d, ignore_errors=True)
            shutil.copytree(src, d)
        elif os.path.exists(src):
            shutil.copy(src, d)
    t = open(os.path.join(dst, "Cargo.toml")).read().replace('path = "/repo"', 'path = "%s"' % os.path.abspath(REPO))
    if os.path.basename(crate) == "autotraits":
        t = t.replace('path = "../harness"', 'path = "%s"' % scratch_crate(HARNESS))
    open(os.path.join(dst, "Cargo.toml"), "w").write(t)
    return dst


def build_harness(profile="release", crate=HARNESS):
    """(Re)build the conformance binaries against /repo's current working tree."""
    crate = scratch_crate(crate)
    key = (profile, crate)
    if key in _built:
        return _built[key]
    t0 = time.time()
    cmd = ["cargo", "build", "--offline", "--profile", profile] if profile != "release" else \
          ["cargo", "build", "--offline", "--release"]
    rc, out = sh(cmd, 1200, env=cargo_env(), cwd=crate)
    if rc != 0:
        raise ToolError("cargo build failed in %s (profile %s):\n%s" % (crate, profile, out[-4000:]))
    d = os.path.join(crate, "target", profile)
    _built[key] = d
    log("[build] %s profile=%s %.1fs" % (os.path.basename(crate), profile, time.time() - t0))
    return d


# --------------------------------------------------------------------------------------
# TLC

_jtmp = None


def java_tmpdir():
    """TLC unpacks its standard modules into a fresh directory under java.io.tmpdir at every start and leaves
    it behind; a check starts dozens of JVMs.  They get a directory of this process under work/, removed at exit."""
    global _jtmp
    if _jtmp is None:
        import atexit
        _jtmp = os.path.join(WORK, "jtmp_%d" % os.getpid())
        os.makedirs(_jtmp, exist_ok=True)
        atexit.register(shutil.rmtree, _jtmp, True)
    return _jtmp


def java_cmd(xmx="3g", serial=True):
    return ["java", "-Djava.io.tmpdir=" + java_tmpdir(), "-XX:+UseSerialGC" if serial else "-XX:+UseParallelGC", "-Xms256m", "-Xmx" + xmx,
            "-Xss64m", "-cp", CP, "tlc2.TLC"]


def tlc_mc(module, cfg, workers=8, timeout=900, env=None, xmx="8g", extra=None, name=None):
    """Run TLC in model-checking mode on spec/<module> with spec/<cfg>.
    Returns dict(ok, generated, distinct, depth, out, seconds)."""
    name = name or os.path.splitext(os.path.basename(cfg))[0]
    meta = os.path.join(WORK, "tlc", name + "_%d" % os.getpid())
    shutil.rmtree(meta, ignore_errors=True)
    os.makedirs(meta, exist_ok=True)
    cmd = java_cmd(xmx, serial=(workers == 1)) + ["-workers", str(workers), "-metadir", meta, "-cleanup",
                                                  "-noGenerateSpecTE", "-nowarning", "-config", cfg] + (extra or []) + [module]
    t0 = time.time()
    rc, out = sh(cmd, timeout, env=env, cwd=SPEC)
    if rc not in (0, 124) and "Error:" not in out and "is violated" not in out:
        # the JVM ended without a verdict of TLC (typically killed when the machine runs out of memory because
        # many checks run side by side): one more attempt after a pause; a second failure is a tool error
        log("[tlc] %s ended with rc=%s and no verdict; retrying once" % (name, rc))
        time.sleep(20)
        shutil.rmtree(meta, ignore_errors=True)
        os.makedirs(meta, exist_ok=True)
        rc, out = sh(cmd, timeout, env=env, cwd=SPEC)
    shutil.rmtree(meta, ignore_errors=True)
    secs = time.time() - t0
    res = {"name": name, "rc": rc, "out": out, "seconds": round(secs, 1), "generated": 0, "distinct": 0, "depth": 0}
    m = re.search(r"(\d[\d,]*) states generated, (\d[\d,]*) distinct states found", out)
    if m:
        res["generated"] = int(m.group(1).replace(",", ""))
        res["distinct"] = int(m.group(2).replace(",", ""))
    m = re.search(r"depth of the complete state graph search is (\d+)", out)
    if m:
        res["depth"] = int(m.group(1))
    res["ok"] = (rc == 0 and "No error has been found" in out)
    if rc == 124:
        raise ToolError("TLC timeout on %s after %ss" % (name, timeout))
    return res


def expect_mc_ok(res):
    """A failure of a specification-level model check does not depend on the code under
    test: it is an error of the machinery (exit 2), never a VIOLATION."""
    if not res["ok"]:
        tail = "\n".join(l for l in res["out"].splitlines() if not l.startswith('"P '))[-3000:]
        raise ToolError("specification-level model check %s failed (rc=%s):\n%s" % (res["name"], res["rc"], tail))
    log("[tlc] %-28s %9d distinct %10d generated depth %3d  %.1fs" %
        (res["name"], res["distinct"], res["generated"], res["depth"], res["seconds"]))
    return res


def validate_trace(path, prop, cfg="Trace.cfg", module="ArimaaTrace.tla", timeout=900, xmx="3g", env=None):
    """Trace validation: returns dict(accepted, lines, rejected_at, fails, counts, out)."""
    meta = os.path.join(WORK, "tlc", "tv_%s_%d" % (hashlib.md5(path.encode()).hexdigest()[:10], os.getpid()))
    shutil.rmtree(meta, ignore_errors=True)
    os.makedirs(meta, exist_ok=True)
    cmd = java_cmd(xmx) + ["-workers", "1", "-metadir", meta, "-cleanup", "-noGenerateSpecTE", "-nowarning",
                           "-maxSetSize", "8000000", "-config", cfg, module]
    e = {"TRACE": path, "PROP": prop}
    if env:
        e.update(env)
    t0 = time.time()
    rc, out = sh(cmd, timeout, env=e, cwd=SPEC)
    if rc != 124 and '"ACCEPTED"' not in out and '"REJECTED at line"' not in out and "Error:" not in out:
        # no verdict and no TLC error: the JVM was killed (memory pressure); one more attempt
        log("[validate] %s ended with rc=%s and no verdict; retrying once" % (os.path.basename(path), rc))
        time.sleep(20)
        shutil.rmtree(meta, ignore_errors=True)
        os.makedirs(meta, exist_ok=True)
        rc, out = sh(cmd, timeout, env=e, cwd=SPEC)
    shutil.rmtree(meta, ignore_errors=True)
    res = {"path": path, "prop": prop, "rc": rc, "out": out, "seconds": round(time.time() - t0, 1),
           "accepted": False, "lines": 0, "rejected_at": None, "fails": [], "counts": []}
    if rc == 124:
        raise ToolError("trace validation timeout on %s" % path)
    m = re.search(r'<<"ACCEPTED", (\d+)>>', out)
    if m:
        res["accepted"] = True
        res["lines"] = int(m.group(1))
    m = re.search(r'<<"REJECTED at line", (\d+), "of", (\d+)', out)
    if m:
        res["rejected_at"] = int(m.group(1))
        res["lines"] = int(m.group(2))
    res["fails"] = re.findall(r'"FAIL (\S+) line (\d+) : ([^"]*)"', out)
    m = re.search(r'"COUNTS <<([^>]*)>>"', out)
    if m and m.group(1).strip():
        res["counts"] = [int(x) for x in m.group(1).split(",")]
    if not res["accepted"] and res["rejected_at"] is None:
        raise ToolError("trace validator produced neither ACCEPTED nor REJECTED for %s:\n%s" % (path, out[-3000:]))
    return res


# --------------------------------------------------------------------------------------
# traces

def record(bindir, driver, seed, events, out, timeout=600, binary="record", extra=None):
    if binary == "twins":
        cmd = [os.path.join(bindir, binary), str(seed), str(events), out]
    else:
        cmd = [os.path.join(bindir, binary), driver, str(seed), str(events), out] + (extra or [])
    env = {"VERIF_REPO": REPO}
    if os.environ.get("VERIF_RECORD_C17"):
        env["VERIF_C17"] = "1"
    rc, o = sh(cmd, timeout, env=env)
    if rc != 0:
        raise ToolError("recorder %s %s failed rc=%s:\n%s" % (binary, driver, rc, o[-2000:]))
    return out


def read_events(path, upto=None):
    ev = []
    with open(path, encoding="utf-8") as f:
        for k, line in enumerate(f, 1):
            if upto is not None and k > upto:
                break
            ev.append(line)
    return ev


def extract_replay(pid, path, line, seed, tag):
    """Self-contained trace from the last reset up to the offending line."""
    os.makedirs(REPLAYS, exist_ok=True)
    lines = read_events(path, line)
    start = 0
    for k in range(len(lines) - 1, -1, -1):
        if lines[k].startswith('{"ev":"reset"'):
            start = k
            break
    # a replay must not depend on stack entries created before the reset: they never do,
    # a reset clears the stack
    dst = os.path.join(REPLAYS, "%s-%s-%s.ndjson" % (pid, seed, tag))
    with open(dst, "w", encoding="utf-8") as f:
        f.writelines(lines[start:])
    return dst


# --------------------------------------------------------------------------------------
# known findings

def known_findings():
    p = os.path.join(VERIF, "known_findings.json")
    if not os.path.exists(p):
        return []
    with open(p) as f:
        return json.load(f).get("findings", [])


def open_finding(pid, key):
    for k in known_findings():
        if k.get("property") == pid and k.get("status") == "open" and k.get("key") == key:
            return k
    return None


# --------------------------------------------------------------------------------------
# evidence

def write_evidence(pid, tier, seed, coverage, wall, violations, assumptions):
    if os.path.abspath(REPO) != "/repo":
        return      # development run against a scratch checkout (VERIF_REPO): evidence describes /repo only
    os.makedirs(EVIDENCE, exist_ok=True)
    ev = {"property_id": pid, "tier": tier, "seed": seed, "level": "model_checking",
          "coverage": coverage, "assumptions": assumptions, "wall_s": round(wall, 1),
          "violations": violations}
    tmp = os.path.join(EVIDENCE, pid + ".json.tmp")
    with open(tmp, "w") as f:
        json.dump(ev, f, indent=1)
    os.replace(tmp, os.path.join(EVIDENCE, pid + ".json"))


def sample_events(path, n=2, pred=None):
    out = []
    try:
        with open(path, encoding="utf-8") as f:
            for line in f:
                e = json.loads(line)
                if pred is None or pred(e):
                    out.append({k: e[k] for k in ("ev", "a", "ph", "s", "st", "mn", "pp", "off", "norep", "term", "th", "txt")
                                if k in e})
                    if len(out) >= n:
                        break
    except Exception:
        pass
    return out


# --------------------------------------------------------------------------------------
# generic trace-based check

TRAP_NAMES = {19: "c6", 22: "f6", 43: "c3", 46: "f3"}
LAST_BREAKDOWN = {}


def distinct_nontrivial(paths, pred):
    """Counts distinct non-trivial events.  The parent of every event is found by mirroring the stack
    discipline of the trace (pop / push), so that predicates comparing an event with its parent are right
    for probe events too.  Also fills LAST_BREAKDOWN with captures by (trap, colour, cause)."""
    seen = set()
    total = 0
    caps = {}
    for p in paths:
        stack = []
        with open(p, encoding="utf-8") as f:
            for line in f:
                e = json.loads(line)
                total += 1
                ev = e.get("ev")
                parent = None
                if ev == "reset":
                    stack = [e]
                elif ev == "act":
                    for _ in range(e.get("pop", 0)):
                        if stack:
                            stack.pop()
                    parent = stack[-1] if stack else None
                    if e.get("push") == 1:
                        stack.append(e)
                    elif stack:
                        stack[-1] = e
                    else:
                        stack = [e]
                else:
                    if ev in ("tdig", "pdig", "reobs"):
                        for _ in range(e.get("pop", 0)):
                            if stack:
                                stack.pop()
                    elif ev == "panic":
                        stack = []
                    continue
                try:
                    if pred(e, parent):
                        key = hashlib.blake2b(
                            json.dumps([e.get("b"), e.get("s"), e.get("st"), e.get("pp"), e.get("a"), e.get("ph")]).encode(),
                            digest_size=12).digest()
                        seen.add(key)
                    if parent is not None and e.get("ph") == 1 and parent.get("ph") == 1 and e["a"][0] >= 1:
                        pb, nb, a = parent["b"], e["b"], e["a"]
                        if sum(1 for x in nb if x) < sum(1 for x in pb if x):
                            src = a[0] - 1
                            dest = src + {1: -8, 2: 1, 3: 8, 4: -1}[a[1]]
                            for t, name in TRAP_NAMES.items():
                                i = t - 1
                                gone = (pb[i] if i != dest else pb[src]) if nb[i] == 0 else 0
                                if nb[i] == 0 and ((i == dest and pb[src]) or (i != dest and i != src and pb[i])):
                                    colour = "gold" if gone <= 6 else "silver"
                                    mover_is_owner = (pb[src] <= 6) == (parent["s"] == 1)
                                    cause = ("stepped in" if i == dest and mover_is_owner else
                                             "pushed/pulled in" if i == dest else
                                             "supporter stepped away" if mover_is_owner else "supporter pushed/pulled away")
                                    k = "%s %s %s" % (name, colour, cause)
                                    caps[k] = caps.get(k, 0) + 1
                except Exception:
                    pass
    LAST_BREAKDOWN.clear()
    LAST_BREAKDOWN.update(caps)
    return len(seen), total


def run_shards(pid, bindir, shards, seed, tier, workdir, cfg="Trace.cfg", module="ArimaaTrace.tla", prop=None,
               binary="record"):
    """shards: list of (driver, events[, extra args]).  Records all, validates all in parallel.
    Returns (results, paths).  Raises Violation on the first rejected shard."""
    os.makedirs(workdir, exist_ok=True)
    jobs = []
    for k, sh_ in enumerate(shards):
        driver, events = sh_[0], sh_[1]
        extra = list(sh_[2]) if len(sh_) > 2 else None
        out = os.path.join(workdir, "%s_%02d_%s.ndjson" % (pid, k, driver))
        jobs.append((driver, seed * 1000 + k, events, out, extra))
    t0 = time.time()
    with cf.ThreadPoolExecutor(max_workers=MAXJ) as ex:
        futs = [ex.submit(record, bindir, d, s, n, o, 900, binary, x) for (d, s, n, o, x) in jobs]
        for f in futs:
            f.result()
    log("[record] %d shards in %.1fs" % (len(jobs), time.time() - t0))
    t0 = time.time()
    results = []
    with cf.ThreadPoolExecutor(max_workers=MAXJ) as ex:
        futs = [ex.submit(validate_trace, o, prop or pid, cfg, module) for (_, _, _, o, _) in jobs]
        for f in futs:
            results.append(f.result())
    log("[validate] %d shards, %d events in %.1fs" % (len(results), sum(r["lines"] for r in results), time.time() - t0))
    for k, r in enumerate(results):
        if not r["accepted"]:
            line = r["rejected_at"]
            replay = extract_replay(pid, r["path"], line, seed, "%02d" % k)
            what = "; ".join("%s line %s: %s" % f for f in r["fails"]) or "event %d has no matching specification action" % line
            # describe a panic event
            try:
                ev = json.loads(read_events(r["path"], line)[-1])
                if ev.get("ev") == "panic":
                    what = "panic in engine call: %s" % ev.get("call")
            except Exception:
                pass
            raise Violation(pid, replay, what)
    return results, [o for (_, _, _, o, _) in jobs]


def count_games(paths):
    n = 0
    for p in paths:
        with open(p, encoding="utf-8") as f:
            for line in f:
                if line.startswith('{"ev":"reset"'):
                    n += 1
    return n


COUNTER_NAMES = {
    1: "states with a pending push", 2: "states where a pull completion is possible", 3: "states with a frozen piece of the mover",
    4: "start-of-turn states with a result", 5: "mid-turn states with a rabbit on goal or a side without rabbits",
    6: "states with an action withheld as same-as-turn-start", 7: "states with an action withheld as third occurrence",
    8: "states with a fourth step withheld", 9: "mid-turn states with nothing offered", 10: "states with rule actions but nothing offered",
    11: "states where some action captures", 12: "states at step 3", 13: "transitions with a capture", 14: "passes", 15: "fourth steps",
    16: "turn ends creating a second occurrence", 17: "setup-to-play transitions", 18: "transitions starting a push",
    19: "enemy piece displaced as a pull completion",
}


def sum_counts(results):
    tot = {}
    for r in results:
        for i, v in enumerate(r.get("counts", []), 1):
            if v:
                tot[i] = tot.get(i, 0) + v
    return {COUNTER_NAMES.get(i, "counter %d" % i): v for i, v in sorted(tot.items())}


# --------------------------------------------------------------------------------------

def main(argv):
    import props
    if not argv:
        log(__doc__)
        return 2
    pid = argv[0]
    tier = os.environ.get("VERIF_TIER", "quick")
    replay = None
    i = 1
    while i < len(argv):
        if argv[i] == "--tier":
            tier = argv[i + 1]
            i += 2
        elif argv[i] == "--replay":
            replay = argv[i + 1]
            i += 2
        else:
            log("unknown argument", argv[i])
            return 2
    seed = int(os.environ.get("VERIF_SEED", "1") or "1")
    if pid not in props.PROPS:
        log("unknown property", pid)
        return 2
    os.makedirs(WORK, exist_ok=True)
    t0 = time.time()
    workdir = os.path.join(WORK, "%s_%d" % (pid, os.getpid()))     # per process: checks may run side by side
    shutil.rmtree(workdir, ignore_errors=True)
    os.makedirs(workdir, exist_ok=True)
    try:
        if replay:
            return props.replay(pid, replay)
        cov, assumptions, findings = props.PROPS[pid](pid, tier, seed, workdir)
        for fnd in findings:
            log("KNOWN-FINDING: property=%s %s" % (pid, fnd))
        write_evidence(pid, tier, seed, cov, time.time() - t0, 0, assumptions)
        log("OK property=%s tier=%s seed=%d wall=%.1fs" % (pid, tier, seed, time.time() - t0))
        shutil.rmtree(workdir, ignore_errors=True)
        return 0
    except Violation as v:
        # a run that stops at a violation has explored little; the record is still well-formed for its level
        cov = {"states": 1, "transitions": 1, "traces_validated_against_impl": 1,
               "evaluations": 1, "distinct_nontrivial": 0, "rule": "run stopped at the first violation",
               "samples": [v.what], "explanation": v.what, "replay": v.replay}
        try:
            write_evidence(pid, tier, seed, cov, time.time() - t0, 1, [])
        except Exception:
            pass
        log("violation: %s" % v.what)
        log("VIOLATION property=%s replay=%s" % (v.pid, v.replay))
        shutil.rmtree(workdir, ignore_errors=True)
        return 1
    except ToolError as te:
        log("TOOL-ERROR: %s" % te)
        shutil.rmtree(workdir, ignore_errors=True)
        return 2
