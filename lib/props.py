"""Per-property check plans (DESIGN.md section 6)."""
import concurrent.futures as cf
import json
import os

from vcheck import (ToolError, Violation, build_harness, count_games, distinct_nontrivial, expect_mc_ok, log,
                    run_shards, sample_events, sum_counts, tlc_mc, validate_trace, extract_replay, WORK)

TRUSTED = [
    "TLC 1.8.0 and the CommunityModules Json/IOUtils overrides",
    "rustc/cargo; the harness projection code (/verif/harness/src/lib.rs) reading public getters",
    "the TLA+ reading of the property statement in /verif/spec (ArimaaRules.tla, ArimaaTrace.tla)",
    "no 64-bit hash collision among the visited positions (would show up as a C06 rejection with a replay file)",
]

# ---------------------------------------------------------------------------------------
# specification-level model checks (S).  name -> (module, cfg, workers, timeout)

MC = {
    "micro22": ("mc/MC_micro.tla", "mc/MC_micro22.cfg", 6, 600),
}

# which S models each property runs per tier
MC_PLAN = {
    "quick": {
        "default": ["micro22"],
    },
    "thorough": {
        "default": ["micro22"],
    },
}


def mc_for(pid, tier):
    plan = MC_PLAN[tier]
    return plan.get(pid, plan["default"])


# ---------------------------------------------------------------------------------------
# trace plans (T): (driver, events)

def shards_general(tier, scale=1.0):
    if tier == "quick":
        base = [("random", 4000), ("random", 4000), ("contact", 4000), ("contact", 4000), ("contact", 4000),
                ("diagrams", 4000), ("diagrams", 4000), ("setup", 3000), ("shuffle", 3000), ("shuffle", 3000)]
    else:
        base = []
        for _ in range(8):
            base += [("random", 12000), ("contact", 12000), ("contact", 12000), ("diagrams", 8000), ("setup", 6000),
                     ("shuffle", 8000), ("random", 12000)]
    return [(d, int(n * scale)) for d, n in base]


def shards_repetition(tier):
    if tier == "quick":
        return [("shuffle", 4000)] * 7 + [("contact", 3000), ("random", 3000), ("diagrams", 3000), ("setup", 2000)]
    out = []
    for _ in range(8):
        out += [("shuffle", 10000)] * 5 + [("contact", 10000), ("random", 10000), ("diagrams", 6000)]
    return out


def shards_setup(tier):
    if tier == "quick":
        return [("setup", 4000)] * 10
    return [("setup", 10000)] * 42


NONTRIVIAL = {
    # pid: (predicate(e, prev) , rule text)
    "C01": (lambda e, p: e["ph"] == 1 and (e["pp"][0] != 0 or e["st"] > 0),
            "events are observed engine states; non-trivial = play-phase state in the middle of a turn or with a push/pull status "
            "(where the legal-step set depends on more than the plain step rule); distinct by (board, side, step, status, action)"),
    "C02": (lambda e, p: e["ev"] == "act" and p is not None and sum(1 for x in e["b"] if x) < sum(1 for x in p["b"] if x),
            "non-trivial = transition that captured a piece (material decreased w.r.t. the previous logged event); distinct by (board, side, step, status, action)"),
    "C03": (lambda e, p: e["ev"] == "act" and e["ph"] == 1 and e["st"] == 0,
            "non-trivial = transition that ended a turn (pass or fourth step) or started the play phase"),
    "C04": (lambda e, p: e["ph"] == 1 and (e["term"] != 0 or (e["st"] > 0 and (1 not in e["b"] or 7 not in e["b"] or 1 in e["b"][:8] or 7 in e["b"][56:]))),
            "non-trivial = state with a reported result, or mid-turn state with a rabbit on a goal rank or a side without rabbits"),
    "C05": (lambda e, p: e["ev"] == "act" and e["ph"] == 1 and e["st"] == 0 and len(e["hh"]) >= 3,
            "non-trivial = completed turn with at least two earlier start-of-turn positions since the last capture"),
    "C06": (lambda e, p: e["ph"] == 1 and e["off"] != e["norep"],
            "non-trivial = state where the offered list differs from the rule-only list (something is withheld)"),
    "C07": (lambda e, p: e["ph"] == 1 and (e["term"] != 0 or e["off"] != e["norep"] or e["cp"][0] != e["cp"][1]),
            "non-trivial = state with a result, or where repetition checking changes an answer"),
    "C08": (lambda e, p: e["ph"] == 1 and e["ev"] == "act",
            "non-trivial = play-phase state reached by an action (its hash was computed incrementally)"),
    "C09": (lambda e, p: e["ph"] == 0 or (p is not None and p.get("ph") == 0),
            "non-trivial = every setup state and the first play state; distinct by (board, side, action)"),
    "C10": (lambda e, p: e["ev"] == "act",
            "non-trivial = state reached by an action"),
    "C12": (lambda e, p: e["ph"] == 1 and e["pp"][0] != 0,
            "non-trivial = state with a push pending or a pull possible"),
    "C13": (lambda e, p: any(x for x in e["pv"]),
            "non-trivial = state where at least one listed action captures a piece"),
    "C14": (lambda e, p: e["ph"] == 1 and e["st"] >= 2,
            "non-trivial = state with at least two earlier boards in the current turn"),
    "C15": (lambda e, p: e["ev"] == "act",
            "non-trivial = state reached by an action (printed, re-parsed and re-printed)"),
    "C19": (lambda e, p: e["ev"] == "act",
            "non-trivial = state reached by an action; every public query and every listed action was called under catch_unwind "
            "with overflow checks enabled"),
}

SHARDS = {
    "C05": shards_repetition, "C06": shards_repetition, "C07": shards_repetition,
    "C09": shards_setup,
}


def trace_property(pid, tier, seed, workdir):
    bindir = build_harness("release")
    mcs = []
    with cf.ThreadPoolExecutor(max_workers=2) as ex:
        futs = [ex.submit(tlc_mc, *MC[name][:2], workers=MC[name][2], timeout=MC[name][3], name=name)
                for name in mc_for(pid, tier)]
        shards = SHARDS.get(pid, shards_general)(tier)
        results, paths = run_shards(pid, bindir, shards, seed, tier, workdir)
        for f in futs:
            mcs.append(expect_mc_ok(f.result()))
    pred, rule = NONTRIVIAL[pid]
    dn, total = distinct_nontrivial(paths, pred)
    games = count_games(paths)
    cov = {
        "states": sum(m["distinct"] for m in mcs),
        "transitions": sum(m["generated"] for m in mcs),
        "traces_validated_against_impl": games,
        "events_validated": sum(r["lines"] for r in results),
        "evaluations": total,
        "distinct_nontrivial": dn,
        "rule": rule,
        "samples": sample_events(paths[0], 2, lambda e: pred(e, None) if pid not in ("C02",) else e["ev"] == "act") or sample_events(paths[0], 1),
        "spec_models": [{"model": m["name"], "distinct_states": m["distinct"], "states_generated": m["generated"],
                         "depth": m["depth"], "seconds": m["seconds"]} for m in mcs],
        "trace_shards": [{"driver": s[0], "events": r["lines"], "seconds": r["seconds"]} for s, r in zip(shards, results)],
        "category_counts": sum_counts(results),
        "exhaustive": False,
    }
    gaps = [k for k, v in cov["category_counts"].items() if v == 0]
    if gaps:
        cov["coverage_gaps"] = gaps
    return cov, TRUSTED, []


PROPS = {}
for _p in ("C01", "C02", "C03", "C04", "C05", "C06", "C07", "C08", "C09", "C10", "C12", "C13", "C14", "C15", "C19"):
    PROPS[_p] = trace_property


def replay(pid, path):
    """Re-validate one replay file with the conjuncts of pid."""
    path = os.path.abspath(path)
    r = validate_trace(path, pid)
    if r["accepted"]:
        log("replay accepted: %s (%d events)" % (path, r["lines"]))
        return 0
    log("replay rejected at line %s: %s" % (r["rejected_at"], "; ".join("%s line %s: %s" % f for f in r["fails"])))
    log("VIOLATION property=%s replay=%s" % (pid, path))
    return 1
