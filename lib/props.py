"""Per-property check plans (DESIGN.md section 6)."""
import concurrent.futures as cf
import json
import os

from vcheck import (ToolError, Violation, build_harness, count_games, distinct_nontrivial, expect_mc_ok, log,
                    run_shards, sample_events, sum_counts, tlc_mc, validate_trace, extract_replay, WORK)

TRUSTED = [
    "TLC 1.8.0 and the CommunityModules Json/IOUtils overrides",
    "rustc/cargo; the harness projection code (/verif/harness/src/lib.rs) reading public getters",
    "the TLA+ reading of the property statement in /verif/spec (ArimaaRules.tla, ArimaaTrace.tla)",
    "no 64-bit hash collision among the visited positions (would show up as a C06 rejection with a replay file)",
]

# ---------------------------------------------------------------------------------------
# specification-level model checks (S).  name -> (module, cfg, workers, timeout)

MC = {
    "micro22": ("mc/MC_micro.tla", "mc/MC_micro22.cfg", 4, 600),     # 2x2, whole games <= 9 turns
    "micro32": ("mc/MC_micro.tla", "mc/MC_micro32.cfg", 8, 3000),    # 3x2, <= 8 turns
    "mini33q": ("mc/MC_micro.tla", "mc/MC_mini33q.cfg", 4, 900),     # 3x3 + centre trap, 2 turns
    "mini33": ("mc/MC_micro.tla", "mc/MC_mini33.cfg", 8, 3000),      # 3 turns
    "mini43q": ("mc/MC_micro.tla", "mc/MC_mini43q.cfg", 6, 900),     # 4x3 + trap, 2 turns
    "mini44": ("mc/MC_micro.tla", "mc/MC_mini44.cfg", 6, 1800),      # 4x4 + trap, 2 turns
    "geometry": ("mc/MC_geometry.tla", "mc/MC_geometry.cfg", 2, 600),   # no square touches two traps; <= 1 capture per step around every trap
    "setup": ("mc/MC_setup.tla", "mc/MC_setup.cfg", 4, 600),          # real complement, all count vectors (VIEW)
    "setupfull": ("mc/MC_setup.tla", "mc/MC_setupfull.cfg", 4, 900),  # 3-file board, all orders, no VIEW
    "sym33": ("mc/MC_sym.tla", "mc/MC_sym33.cfg", 4, 600),          # spec commutes with the symmetries, 3x3
    "sym44": ("mc/MC_sym.tla", "mc/MC_sym44.cfg", 4, 600),          # 4x4 with four traps, one turn
    "hash33": ("mc/MC_hash.tla", "mc/MC_hash33.cfg", 4, 600),        # feature-set hash carried along, 3x3
    "hashsetup": ("mc/MC_hash.tla", "mc/MC_hashsetup.cfg", 4, 900),  # all setups of a 2x5 board + first turn
}

# which S models each property runs per tier
MC_PLAN = {
    "quick": {
        "default": ["micro22", "mini33q"],
        "C08": ["hash33", "hashsetup"],
        "C09": ["setup", "setupfull"],
        "C13": ["micro22", "mini33q", "geometry"], "C02": ["micro22", "mini33q", "geometry"],
    },
    "thorough": {
        "default": ["micro22", "mini33", "mini43q", "mini44"],
        "C08": ["hash33", "hashsetup", "mini33q"],
        "C09": ["setup", "setupfull", "hashsetup"],
        "C13": ["micro22", "mini33", "mini43q", "mini44", "geometry"], "C02": ["micro22", "mini33", "mini43q", "mini44", "geometry"],
        "C05": ["micro22", "micro32", "mini33"], "C06": ["micro22", "micro32", "mini33"], "C07": ["micro22", "micro32", "mini33"],
    },
}


def mc_for(pid, tier):
    plan = MC_PLAN[tier]
    return plan.get(pid, plan["default"])


# ---------------------------------------------------------------------------------------
# trace plans (T): (driver, events)

def shards_general(tier, scale=1.0):
    if tier == "quick":
        base = [("random", 4000), ("random", 4000), ("contact", 4000), ("contact", 4000), ("contact", 4000),
                ("diagrams", 4000), ("diagrams", 3000), ("setup", 3000), ("shuffle", 3000), ("confined", 4000), ("confined", 4000),
                ("wide", 3000), ("rows", 3000)]
    else:
        base = []
        for _ in range(8):
            base += [("random", 12000), ("contact", 12000), ("contact", 12000), ("diagrams", 8000), ("setup", 6000),
                     ("shuffle", 8000), ("confined", 12000), ("wide", 8000), ("rows", 8000)]
    return [(d, int(n * scale)) for d, n in base]


def shards_repetition(tier):
    if tier == "quick":
        return [("confined", 5000)] * 8 + [("shuffle", 4000)] * 2 + [("contact", 3000), ("random", 3000), ("diagrams", 2000), ("setup", 3000), ("setup", 3000), ("wide", 3000)]
    out = []
    for _ in range(8):
        out += [("confined", 12000)] * 4 + [("shuffle", 10000)] + [("contact", 10000), ("random", 10000), ("diagrams", 6000), ("setup", 8000), ("wide", 8000)]
    return out


def shards_setup(tier):
    # setupall: every count vector of both sides and every placement offered there (7 561 events, exhaustive
    # in the sense of spec/mc/MC_setup.tla's VIEW); setup: random complete orders
    if tier == "quick":
        return [("setupall", 1000000)] + [("setup", 4000)] * 9
    return [("setupall", 1000000)] + [("setup", 10000)] * 41


NONTRIVIAL = {
    # pid: (predicate(e, prev) , rule text)
    "C01": (lambda e, p: e["ph"] == 1 and (e["pp"][0] != 0 or e["st"] > 0),
            "events are observed engine states; non-trivial = play-phase state in the middle of a turn or with a push/pull status "
            "(where the legal-step set depends on more than the plain step rule); distinct by (board, side, step, status, action)"),
    "C02": (lambda e, p: e["ev"] == "act" and p is not None and sum(1 for x in e["b"] if x) < sum(1 for x in p["b"] if x),
            "non-trivial = transition that captured a piece (material decreased w.r.t. the previous logged event); distinct by (board, side, step, status, action)"),
    "C03": (lambda e, p: e["ev"] == "act" and e["ph"] == 1 and e["st"] == 0,
            "non-trivial = transition that ended a turn (pass or fourth step) or started the play phase"),
    "C04": (lambda e, p: e["ph"] == 1 and (e["term"] != 0 or (e["st"] > 0 and (1 not in e["b"] or 7 not in e["b"] or 1 in e["b"][:8] or 7 in e["b"][56:]))),
            "non-trivial = state with a reported result, or mid-turn state with a rabbit on a goal rank or a side without rabbits"),
    "C05": (lambda e, p: e["ev"] == "act" and e["ph"] == 1 and e["st"] == 0 and len(e["hh"]) >= 3,
            "non-trivial = completed turn with at least two earlier start-of-turn positions since the last capture"),
    "C06": (lambda e, p: e["ph"] == 1 and e["off"] != e["norep"],
            "non-trivial = state where the offered list differs from the rule-only list (something is withheld)"),
    "C07": (lambda e, p: e["ph"] == 1 and (e["term"] != 0 or e["off"] != e["norep"] or e["cp"][0] != e["cp"][1]),
            "non-trivial = state with a result, or where repetition checking changes an answer"),
    "C08": (lambda e, p: e["ph"] == 1 and e["ev"] == "act",
            "non-trivial = play-phase state reached by an action (its hash was computed incrementally)"),
    "C09": (lambda e, p: e["ph"] == 0 or (p is not None and p.get("ph") == 0),
            "non-trivial = every setup state and the first play state; distinct by (board, side, action)"),
    "C10": (lambda e, p: e["ev"] == "act",
            "non-trivial = state reached by an action"),
    "C12": (lambda e, p: e["ph"] == 1 and e["pp"][0] != 0,
            "non-trivial = state with a push pending or a pull possible"),
    "C13": (lambda e, p: any(x for x in e["pv"]),
            "non-trivial = state where at least one listed action captures a piece"),
    "C14": (lambda e, p: e["ph"] == 1 and e["st"] >= 2,
            "non-trivial = state with at least two earlier boards in the current turn"),
    "C15": (lambda e, p: e["ev"] == "act",
            "non-trivial = state reached by an action (printed, re-parsed and re-printed)"),
    "C19": (lambda e, p: e["ev"] == "act",
            "non-trivial = state reached by an action; every public query and every listed action was called under catch_unwind "
            "with overflow checks enabled"),
}

def shards_rules(tier):
    # C01 / C12: the general mix plus high-volume two-ply probes around one push start / pull lead, dense
    # neighbourhoods, edge and corner squares over-represented, pieces on the squares that alias across the a/h edge
    if tier == "quick":
        return shards_general(tier) + [("focus", 10000)] * 6 + shards_grid(tier)
    return shards_general(tier) + [("focus", 40000)] * 28 + shards_grid(tier)


def shards_grid(tier):
    # the situation grid (harness/src/positions.rs, grid_positions): one root per (rule clause, square,
    # direction, colour) - 64 k roots, ~160 k events, ENUMERATED; cut into slices for parallel validation.
    # quick: one rotation of the piece types (chosen by the seed); thorough: all seven
    if tier == "quick":
        return [("grid", 100000000, [str(k), "8"]) for k in range(8)]
    return [("grid", 100000000, [str(k), "8", str(rot)]) for rot in range(7) for k in range(8)]


def shards_capture(tier):
    # gridtrap: the capture clauses of the situation grid only (every trap x neighbour x colour: supporter walks /
    # is pushed / is dragged away, piece walks / is pushed / is pulled onto the trap, alone or beside a friend)
    trap = [("gridtrap", 100000000, ["0", "2"]), ("gridtrap", 100000000, ["1", "2"])] if tier == "quick" else \
           [("gridtrap", 100000000, [str(k), "2", str(rot)]) for rot in range(7) for k in range(2)]
    return shards_general(tier) + ([("focus", 8000)] * 3 if tier == "quick" else [("focus", 30000)] * 10) + trap


def shards_nopanic(tier):
    return shards_capture(tier) + shards_grid(tier)


def shards_unclean(tier):
    # C02 / C10 also say what happens to a piece that a PARSED position already shows unsupported on a trap:
    # games from such roots are judged by these two conjuncts only (ArimaaTrace.tla, En)
    return shards_capture(tier) + ([("unclean", 4000)] * 2 if tier == "quick" else [("unclean", 20000)] * 6)


def shards_results(tier):
    return shards_general(tier) + [("results", 100000)]


SHARDS = {
    "C01": shards_rules, "C12": shards_rules, "C02": shards_unclean, "C10": shards_unclean, "C13": shards_capture, "C19": shards_nopanic,
    "C04": shards_results,
    "C05": shards_repetition, "C06": shards_repetition, "C07": shards_repetition,
    "C09": shards_setup,
}


# ---------------------------------------------------------------------------------------
# spec -> implementation (G): TLC explores the specification on the real geometry from roots written
# by `genroots`, emits one path per distinct state; `replay` drives the engine along them

GEN_PLAN = {
    # kind: (quick (n roots, cfg), thorough (n roots, cfg), probe mode, replay shards)
    "scenarios": ((1, "mc/MC_gen_t0.cfg"), (0, "mc/MC_gen_t0.cfg"), 2),
    "patterns": ((16, "mc/MC_gen.cfg"), (260, "mc/MC_gen.cfg"), 3),
    "diagrams": ((5, "mc/MC_gen.cfg"), (60, "mc/MC_gen.cfg"), 3),
}
GEN_KINDS = {
    "default": ["scenarios", "patterns", "diagrams"],
    "C05": ["scenarios"], "C06": ["scenarios"], "C07": ["scenarios"], "C03": ["scenarios", "diagrams"],
    "C09": [], "C08": ["scenarios", "diagrams"], "C14": ["scenarios", "diagrams"], "C15": ["diagrams"],
}


def gen_generate(kind, tier, seed, workdir, bindir):
    """genroots + TLC exploration; returns (roots file, tlc output file, mc result)."""
    import vcheck
    from vcheck import sh
    (nq, cfgq), (nt, cfgt), _mode = GEN_PLAN[kind]
    n, cfg = (nq, cfgq) if tier == "quick" else (nt, cfgt)
    roots = os.path.join(workdir, "roots_%s.ndjson" % kind)
    rc, o = sh([os.path.join(bindir, "genroots"), kind, str(seed), str(n), roots], 300, env={"VERIF_REPO": vcheck.REPO})
    if rc != 0:
        raise ToolError("genroots %s failed: %s" % (kind, o[-1000:]))
    res = tlc_mc("mc/MC_gen.tla", cfg, workers=6 if tier == "quick" else 12, timeout=3000, env={"ROOTS": roots},
                 name="gen_" + kind, xmx="16g")
    expect_mc_ok(res)
    outp = os.path.join(workdir, "gen_%s.txt" % kind)
    with open(outp, "w") as f:
        f.write("\n".join(l for l in res["out"].splitlines() if l.startswith('"P ')))
    return roots, outp, res


def gen_stage(pid, tier, seed, workdir, bindir, prop=None):
    """Returns (validation results, trace paths, mc results, stats). Raises Violation on rejection."""
    import vcheck
    from vcheck import sh
    kinds = GEN_KINDS.get(pid, GEN_KINDS["default"])
    mcs, jobs, stats = [], [], {"roots": 0, "paths": 0, "followed": 0, "extra_probes": 0, "witnesses": 0}
    # stored witnesses of rare states, found by TLC (tools/find_witness.py), replayed on every run
    wdir = os.path.join(vcheck.VERIF, "scenarios")
    for fn in sorted(os.listdir(wdir)) if os.path.isdir(wdir) else []:
        if fn.endswith(".path.txt"):
            base = fn[:-len(".path.txt")]
            jobs.append((os.path.join(wdir, fn), os.path.join(wdir, base + ".root.ndjson"), 1, 0, 1, "wit_" + base))
            stats["witnesses"] += 1
    with cf.ThreadPoolExecutor(max_workers=3) as ex:
        futs = {k: ex.submit(gen_generate, k, tier, seed, workdir, bindir) for k in kinds}
        for k in kinds:
            roots, outp, res = futs[k].result()
            mcs.append(res)
            nsh = 1 if res["distinct"] < 1500 else (4 if tier == "quick" else 12)
            for sh_i in range(nsh):
                jobs.append((outp, roots, GEN_PLAN[k][2], sh_i, nsh, "gen_%s_%d" % (k, sh_i)))
    paths = []

    def do_replay(job):
        outp, roots, mode, sh_i, nsh, tag = job
        dst = os.path.join(workdir, "%s_%s.ndjson" % (pid, tag))
        rc, o = sh([os.path.join(bindir, "replay"), outp, roots, dst, str(mode), str(sh_i), str(nsh)], 1800)
        if rc != 0:
            raise ToolError("replay failed (%s): %s" % (tag, o[-800:]))
        try:
            st = json.loads(o.strip().splitlines()[-1])
        except Exception:
            st = {}
        return dst, st
    with cf.ThreadPoolExecutor(max_workers=8) as ex:
        for dst, st in ex.map(do_replay, jobs):
            paths.append(dst)
            for k in ("followed", "extra_probes"):
                stats[k] += st.get(k, 0)
    stats["paths"] = sum(m["distinct"] for m in mcs)
    results = []
    with cf.ThreadPoolExecutor(max_workers=14) as ex:
        for r in ex.map(lambda p_: validate_trace(p_, prop or pid), paths):
            results.append(r)
    for k, r in enumerate(results):
        if not r["accepted"]:
            replay = extract_replay(pid, r["path"], r["rejected_at"], seed, "gen%02d" % k)
            what = "; ".join("%s line %s: %s" % f for f in r["fails"]) or "event %d has no matching specification action" % r["rejected_at"]
            try:
                ev = json.loads(vcheck.read_events(r["path"], r["rejected_at"])[-1])
                if ev.get("ev") == "panic":
                    what = "panic in engine call: %s" % ev.get("call")
            except Exception:
                pass
            raise Violation(pid, replay, "[spec->impl replay] " + what)
    log("[gen] %s: %d spec states explored on 8x8, %d events replayed and validated in %d shards" %
        (",".join(kinds) or "witnesses only", stats["paths"], sum(r["lines"] for r in results), len(paths)))
    return results, paths, mcs, stats


def turns_stage(tier, seed, workdir, bindir):
    """C01's oracle cross-check: constructive RuleMoves/NextPP vs the declarative labelled-turn definition
    (ArimaaTurns.tla) on fixed 3x3 roots and on seeded sparse 8x8 pattern roots."""
    import vcheck
    from vcheck import sh
    out = []
    r = tlc_mc("mc/MC_turns.tla", "mc/MC_turns33.cfg", workers=4, timeout=900, name="turns33",
               env={"ROOTS": os.path.join(vcheck.SPEC, "mc", "roots_turns33.ndjson")})
    out.append(expect_mc_ok(r))
    kind, n = ("sparse5", 8) if tier == "quick" else ("sparse", 60)
    roots = os.path.join(workdir, "roots_turns88.ndjson")
    rc, o = sh([os.path.join(bindir, "genroots"), kind, str(seed), str(n), roots], 300, env={"VERIF_REPO": vcheck.REPO})
    if rc != 0:
        raise ToolError("genroots %s failed: %s" % (kind, o[-500:]))
    r = tlc_mc("mc/MC_turns.tla", "mc/MC_turns88.cfg", workers=6 if tier == "quick" else 12, timeout=3000, name="turns88",
               env={"ROOTS": roots}, xmx="12g")
    expect_mc_ok(r)
    import re as _re
    turns = [int(x) for x in _re.findall(r'"TURNS \d+ (\d+)"', r["out"])]
    r["complete_turns_compared"] = sum(turns)
    r["roots"] = len(turns)
    out.append(r)
    # the README's worked example: 2467 unique first moves from the basic setup, counted on the SPECIFICATION as
    # (states found when Gold's first turn is expanded) - (its mid-turn states)
    a = expect_mc_ok(tlc_mc("mc/MC_moves.tla", "mc/MC_moves.cfg", workers=4, timeout=900, name="moves_all"))
    b = expect_mc_ok(tlc_mc("mc/MC_moves.tla", "mc/MC_moves_mid.cfg", workers=4, timeout=900, name="moves_mid"))
    if a["distinct"] - b["distinct"] != 2467:
        raise ToolError("the specification counts %d first moves from the basic setup, the README (and the engine's doc test) say 2467"
                        % (a["distinct"] - b["distinct"]))
    a["roots"] = 1
    a["complete_turns_compared"] = a["distinct"] - b["distinct"]
    a["name"] = "readme_first_moves_2467"
    out.append(a)
    return out


def trace_property(pid, tier, seed, workdir):
    bindir = build_harness("release")

    def stage_t():
        mcs_ = []
        with cf.ThreadPoolExecutor(max_workers=2) as ex:
            futs = [ex.submit(tlc_mc, *MC[name][:2], workers=MC[name][2], timeout=MC[name][3], name=name)
                    for name in mc_for(pid, tier)]
            shards_ = SHARDS.get(pid, shards_general)(tier)
            results_, paths_ = run_shards(pid, bindir, shards_, seed, tier, workdir)
            for f in futs:
                mcs_.append(expect_mc_ok(f.result()))
        # a few shards from the build WITHOUT overflow checks: arithmetic that panics in the checked build
        # (and is then C19's business) wraps silently there and must still give the right counters
        if pid in ("C03", "C14"):
            plain = build_harness("plain")
            extra = [("random", 3000), ("contact", 3000), ("confined", 3000)] if tier == "quick" else [("random", 20000), ("contact", 20000), ("confined", 20000)]
            r2, p2 = run_shards(pid, plain, extra, seed + 500, tier, os.path.join(workdir, "plain"))
            results_ = results_ + r2
            paths_ = paths_ + p2
            shards_ = list(shards_) + [("plain:" + d, n) for d, n in extra]
        return mcs_, shards_, results_, paths_

    # the three engines run side by side: impl->spec traces (+ spec-level models), spec->impl replay,
    # oracle cross-check
    with cf.ThreadPoolExecutor(max_workers=3) as ex:
        ft = ex.submit(stage_t)
        fg = ex.submit(gen_stage, pid, tier, seed, workdir, bindir)
        fo = ex.submit(turns_stage, tier, seed, workdir, bindir) if pid in ("C01", "C12") else None
        mcs, shards, results, paths = ft.result()
        gres, gpaths, gmcs, gstats = fg.result()
        turns = fo.result() if fo else []
    results_t, paths_t = results, paths
    results = results + gres
    paths = paths + gpaths
    mcs = mcs + gmcs + turns
    pred, rule = NONTRIVIAL[pid]
    dn, total = distinct_nontrivial(paths, pred)
    games = count_games(paths)
    cov = {
        "states": sum(m["distinct"] for m in mcs),
        "transitions": sum(m["generated"] for m in mcs),
        "traces_validated_against_impl": games,
        "events_validated": sum(r["lines"] for r in results),
        "evaluations": total,
        "distinct_nontrivial": dn,
        "rule": rule,
        "samples": sample_events(paths[0], 2, lambda e: e["ev"] == "act" and e["ph"] == 1) or sample_events(paths[0], 1),
        "spec_models": [{"model": m["name"], "distinct_states": m["distinct"], "states_generated": m["generated"],
                         "depth": m["depth"], "seconds": m["seconds"]} for m in mcs],
        "trace_shards": [{"driver": s[0], "events": r["lines"], "seconds": r["seconds"]} for s, r in zip(shards, results_t)],
        "spec_to_impl": dict(gstats, events=sum(r["lines"] for r in gres), shards=len(gpaths)),
        "oracle_cross_check": [{"model": t["name"], "roots": t.get("roots"), "complete_turns_compared": t.get("complete_turns_compared")}
                               for t in turns if t.get("roots")],
        "category_counts": sum_counts(results),
        "exhaustive": False,
    }
    if pid in ("C02", "C13", "C10", "C08"):
        import vcheck as _v
        cov["captures_by_trap_colour_cause"] = dict(sorted(_v.LAST_BREAKDOWN.items()))
        missing = [("%s %s %s" % (t, c, k)) for t in ("c3", "f3", "c6", "f6") for c in ("gold", "silver")
                   for k in ("stepped in", "pushed/pulled in", "supporter stepped away", "supporter pushed/pulled away")
                   if ("%s %s %s" % (t, c, k)) not in _v.LAST_BREAKDOWN]
        if missing:
            cov.setdefault("coverage_gaps", []).extend("no capture: " + m for m in missing)
    if pid == "C06":
        # beyond the listed properties: the recorded implementation ORDER of the rule-only list (X01);
        # an observation, never a violation
        try:
            xs = [validate_trace(p_, "X01") for p_ in paths_t[:2]]
            cov["beyond_properties"] = {"X01_rule_only_list_order_matches_recorded_implementation_order": all(x["accepted"] for x in xs),
                                        "events": sum(x["lines"] for x in xs)}
        except ToolError as te:
            cov["beyond_properties"] = {"X01": "not evaluated: %s" % str(te)[:100]}
    gaps = [k for k, v in cov["category_counts"].items() if v == 0]
    if gaps:
        cov["coverage_gaps"] = gaps
    return cov, TRUSTED, []


# ---------------------------------------------------------------------------------------
# probe families (P): table-driven cases validated by a probe trace specification

def run_probe(pid, bindir, family, args, out, module, profile_tag, seed, env=None):
    """Run harness `probe <family> <args> <out>`, validate with spec/<module>.
    Returns (validation result, list of (line, what, record-json))."""
    from vcheck import record as _rec, sh, read_events
    import vcheck
    cmd = [os.path.join(bindir, "probe"), family] + [str(a) for a in args] + [out]
    rc, o = sh(cmd, 1800, env={"VERIF_REPO": vcheck.REPO})
    if rc != 0:
        raise ToolError("probe %s failed rc=%s: %s" % (family, rc, o[-2000:]))
    r = validate_trace(out, pid, cfg=PROBE_CFG.get(pid, "Probe.cfg"), module=module, timeout=3000, xmx="6g", env=env)
    fails = []
    if not r["accepted"]:
        lines = read_events(out)
        for (p_, ln, what) in r["fails"]:
            ln = int(ln)
            rec = lines[ln - 1].strip() if 0 < ln <= len(lines) else ""
            fails.append((ln, what, rec))
        if not fails:
            raise ToolError("probe validator rejected %s without naming a record:\n%s" % (out, r["out"][-2000:]))
    return r, fails


def report_probe_fails(pid, fails, seed, tag, key_of):
    """Match failing records against the open known findings; anything else is a violation."""
    from vcheck import open_finding, REPLAYS
    known, unknown = [], []
    for (ln, what, rec) in fails:
        key = key_of(rec)
        k = open_finding(pid, key)
        (known if k else unknown).append((ln, what, rec, key))
    if unknown:
        os.makedirs(REPLAYS, exist_ok=True)
        dst = os.path.join(REPLAYS, "%s-%s-%s.ndjson" % (pid, seed, tag))
        with open(dst, "w", encoding="utf-8") as f:
            seen = set()
            for (ln, what, rec, key) in unknown:
                if rec not in seen:
                    f.write(rec + "\n")
                    seen.add(rec)
        first = unknown[0]
        raise Violation(pid, dst, "%d failing case(s), first: %s : %s" % (len(unknown), first[1], first[2][:300]))
    return sorted(set("%s (%s)" % (key, what) for (_, what, _, key) in known))


def c16_key(rec):
    try:
        r = json.loads(rec)
        return "text=%s" % json.dumps(r.get("txt"), ensure_ascii=True)
    except Exception:
        return rec[:80]


def c16(pid, tier, seed, workdir):
    L = 3 if tier == "quick" else 4
    nrand = 20000 if tier == "quick" else 300000
    mc = expect_mc_ok(tlc_mc("mc/MC_notation.tla", "mc/MC_notation.cfg", workers=1, timeout=300, name="notation"))
    findings = []
    total = 0
    samples = []
    per_profile = {}
    for profile in ("release", "plain"):
        bindir = build_harness(profile)
        out = os.path.join(workdir, "notation_%s.ndjson" % profile)
        # the exhaustive enumeration at the larger bound runs once (checked profile); the
        # plain profile repeats the length-3 enumeration and the samples
        Lp = L if profile == "release" else min(L, 3)
        r, fails = run_probe(pid, bindir, "notation", [Lp, seed, nrand], out, "NotationTrace.tla", profile, seed)
        findings += report_probe_fails(pid, fails, seed, profile, c16_key)
        total += r["lines"]
        per_profile[profile] = {"records": r["lines"], "length_bound": Lp, "seconds": r["seconds"]}
        if not samples:
            with open(out, encoding="utf-8") as f:
                lines = f.readlines()
            samples = [json.loads(lines[k]) for k in (0, 700, len(lines) // 2, len(lines) - 3) if k < len(lines)]
        log("[probe] notation profile=%s L=%d records=%d %.1fs" % (profile, Lp, r["lines"], r["seconds"]))
    K = 39
    nstr = sum(K ** i for i in range(1, L + 1))
    cov = {
        "states": mc["distinct"] + total, "transitions": mc["generated"] + total,
        "traces_validated_against_impl": 2,
        "evaluations": total,
        "distinct_nontrivial": nstr + 263 + 64 + 6 + 4,
        "rule": "every string of length 1..%d over the 39-symbol abstract alphabet of Notation.tla (incl. 9 non-ASCII characters, four of them aliasing an accepted ASCII character in their low byte, the upper-case forms of the accepted letters, and LF / CR / TAB) is given to the four "
                "parsers under catch_unwind in two build profiles (overflow checks on/off) and the outcome compared with the declarative parser of the spec; "
                "plus %d sampled strings of length %d..%d, all 263 actions / 64 squares / 6 pieces / 4 directions printed and parsed back, and all "
                "conversions of all 64 squares; distinct = distinct strings + values (measured: enumeration completeness is checked by the spec)" % (L, nrand, L + 1, L + 4),
        "samples": samples,
        "profiles": per_profile,
        "exhaustive": True,
        "exhaustive_scope": "all strings up to length %d over the stated alphabet, all values; longer strings sampled" % L,
    }
    return cov, TRUSTED[:3] + ["strings outside the 39-symbol alphabet behave like some string over it (alphabet chosen by reading the parsers)"], findings


def c17_key(rec):
    try:
        r = json.loads(rec)
        return "group cls=%s base=%s sq=%s c=%s" % (r.get("cls"), r.get("base"), r.get("sq"), r.get("c"))
    except Exception:
        return rec[:80]


def c17(pid, tier, seed, workdir):
    nb = 3 if tier == "quick" else 12
    mc = expect_mc_ok(tlc_mc(*MC["hash33"][:2], workers=4, timeout=600, name="hash33"))
    bindir = build_harness("release")
    out = os.path.join(workdir, "hash.ndjson")
    r, fails = run_probe(pid, bindir, "hash", [nb, seed], out, "HashTrace.tla", "release", seed)
    findings = report_probe_fails(pid, fails, seed, "hash", c17_key)
    # reached states: after every capture and on a sample of other transitions the harness compares the
    # state's (incrementally maintained) hash with the from-scratch hashes of all ~1400 single-feature neighbours
    os.environ["VERIF_RECORD_C17"] = "1"
    try:
        shards = [("contact", 2500), ("contact", 2500), ("random", 2500), ("confined", 2500), ("diagrams", 2000), ("setup", 1500)]
        if tier != "quick":
            shards = [(d, n * 6) for d, n in shards] * 3
        tres, tpaths = run_shards(pid, bindir, shards, seed, tier, workdir)
    finally:
        del os.environ["VERIF_RECORD_C17"]
    reached = sum((x["counts"] + [0] * 24)[21] for x in tres)
    log("[c17] %d reached states compared with all their single-feature neighbours" % reached)
    m = __import__("re").search(r'PAIRS (\d+)', r["out"])
    pairs = int(m.group(1)) if m else 0
    with open(out, encoding="utf-8") as f:
        lines = f.readlines()
    def trim(e):
        e = dict(e)
        if len(e.get("th", [])) > 6:
            e["th"] = e["th"][:6] + ["... %d in all" % len(e["th"])]
            e["keys"] = e["keys"][:6] + ["..."]
        e.pop("bb", None)
        return e
    cov = {
        "states": mc["distinct"] + r["lines"], "transitions": mc["generated"] + r["lines"],
        "traces_validated_against_impl": 1 + len(tpaths),
        "evaluations": pairs + reached * 1420, "distinct_nontrivial": pairs,
        "rule": "every unordered pair of states differing in exactly one hashed feature: per square all 78 pairs of the 13 contents, per piece kind all pairs of "
                "(empty) squares, the two sides, the 6 step pairs, all pairs of the 641 push/pull statuses; enumerated completely on the empty base state "
                "(234,311 pairs) and again on %d random legal base states; states built through PieceBoard::new / Zobrist::from_piece_board / PlayPhase::new / "
                "GameState::new; the spec checks the groups are the feature universe and that hashes are pairwise distinct; count = pairs, measured by the spec" % (nb - 1),
        "samples": [trim(json.loads(lines[k])) for k in (0, 64, 76, 77, 78) if k < len(lines)],
        "exhaustive": True, "bases": nb,
        "reached_states_checked_against_all_single_feature_neighbours": reached,
        "traces_of_reached_states": len(tpaths),
    }
    return cov, TRUSTED[:3], findings


def c15_key(rec):
    try:
        r = json.loads(rec)
        if r.get("k") == "shape":
            return "shape hdr=%s nrows=%s ncols=%s cc=%s trail=%s" % (r.get("hdr"), r.get("nrows"), r.get("ncols"), r.get("cc"), r.get("trail"))
        return "text=%s" % json.dumps(r.get("txt"), ensure_ascii=True)[:200]
    except Exception:
        return rec[:80]


def c15(pid, tier, seed, workdir):
    cov, assumptions, findings = trace_property(pid, tier, seed, workdir)
    nmut = 20000 if tier == "quick" else 400000
    probes = {}
    shapes = 0
    for profile in ("release", "plain"):
        bindir = build_harness(profile)
        out = os.path.join(workdir, "diagram_%s.ndjson" % profile)
        r, fails = run_probe(pid, bindir, "diagram", [seed, nmut], out, "DiagramTrace.tla", profile, seed)
        findings += report_probe_fails(pid, fails, seed, "diagram_" + profile, c15_key)
        m = __import__("re").search(r'WELLFORMED (\d+)', r["out"])
        probes[profile] = {"records": r["lines"], "well_formed_shapes_with_predicted_state": int(m.group(1)) if m else 0,
                           "seconds": r["seconds"]}
        shapes = r["lines"] - nmut - 1
        log("[probe] diagram profile=%s records=%d %.1fs" % (profile, r["lines"], r["seconds"]))
        if profile == "release":
            with open(out, encoding="utf-8") as f:
                first = json.loads(f.readline())
            cov["samples"].append({"probe": "diagram shape", "hdr": first.get("hdr"), "nrows": first.get("nrows"),
                                   "ncols": first.get("ncols"), "cc": first.get("cc"), "out": first.get("out"), "txt": first.get("txt")})
    cov["diagram_probe"] = probes
    cov["diagram_shapes"] = shapes
    cov["diagram_mutations"] = nmut
    cov["rule"] += ("; second half (parsing never panics): %d diagram-like texts by shape (17 header classes x 9 row counts x 7 column counts x 5 cell classes x "
                    "5 trailers, thinned outside the neighbourhood of the well-formed shape) and %d random character mutations of printed diagrams, each in two "
                    "build profiles; bounded + sampled, not all strings" % (shapes, nmut))
    cov["evaluations"] += 2 * (shapes + nmut)
    cov["distinct_nontrivial"] += shapes
    return cov, assumptions, findings


def c20_key(rec):
    try:
        r = json.loads(rec)
        if r.get("k") == "run":
            return "drop of a %s-turn capture-free history on a %s-byte stack" % (r.get("n"), r.get("stack"))
        return "stack bisection n1=%s n2=%s" % (r.get("n1"), r.get("n2"))
    except Exception:
        return rec[:80]


def c20(pid, tier, seed, workdir):
    import vcheck
    from vcheck import sh
    findings = []
    # S: the two drop disciplines of PList.tla
    loop = expect_mc_ok(tlc_mc("PList.tla", "mc/MC_droploop.cfg", workers=6, timeout=900, name="droploop"))
    glue = tlc_mc("PList.tla", "mc/MC_dropglue.cfg", workers=2, timeout=300, name="dropglue")
    if "Invariant C20_Bounded is violated" not in glue["out"]:
        raise ToolError("PList.tla: the glue discipline is expected to violate C20_Bounded (the model must distinguish the disciplines):\n" + glue["out"][-1500:])
    log("[tlc] dropglue: C20_Bounded violated as expected (recursive drop glue is not stack-bounded)")
    ladder = "25000,100000,400000" if tier == "quick" else "25000,100000,400000,1200000"
    per = {}
    total_runs = 0
    samples = []
    # the first events of a long game are ordinary engine traces: validate them like any other
    bindir = build_harness("release")
    tr = os.path.join(workdir, "longgame_trace.ndjson")
    rc, o = sh([os.path.join(bindir, "longgame"), "run", "3000", str(2 * 1024 * 1024), str(7 + seed), tr], 600)
    if rc != 0:
        # exit 3 = the driver's walk got stuck (says nothing about the engine); anything else is data
        if rc != 3:
            rec = json.dumps({"k": "run", "n": 3000, "stack": 2097152, "survived": 0, "status": "exit%d" % rc})
            raise Violation(pid, _write_replay(pid, seed, "short", [rec]), "3000-turn game aborted: rc=%d %s" % (rc, o[-300:]))
    r = validate_trace(tr, "ALL")
    if not r["accepted"]:
        replay = extract_replay(pid, tr, r["rejected_at"], seed, "trace")
        raise Violation(pid, replay, "long-game prefix rejected by the trace specification: %s" % "; ".join("%s line %s: %s" % f for f in r["fails"]))
    for profile in ("release", "plain"):
        bindir = build_harness(profile)
        out = os.path.join(workdir, "ladder_%s.ndjson" % profile)
        rc, o = sh([os.path.join(bindir, "longgame"), "ladder", out, str(seed), ladder, "2000", "32000"], 3000)
        if rc != 0:
            raise ToolError("longgame ladder failed rc=%s: %s" % (rc, o[-1000:]))
        v = validate_trace(out, pid, cfg="Probe.cfg", module="DropTrace.tla")
        fails = []
        if not v["accepted"]:
            lines = vcheck.read_events(out)
            for (p_, ln, what) in v["fails"]:
                fails.append((int(ln), what, lines[int(ln) - 1].strip()))
            if not fails:
                raise ToolError("DropTrace rejected without naming a record:\n" + v["out"][-1500:])
        findings += report_probe_fails(pid, fails, seed, "ladder_" + profile, c20_key)
        recs = [json.loads(x) for x in vcheck.read_events(out)]
        per[profile] = [{k: x.get(k) for k in ("k", "n", "stack", "survived", "status", "n1", "min1", "n2", "min2") if k in x} for x in recs if x.get("k") != "done"]
        total_runs += len(recs) - 1
        samples = samples or recs[:2] + [x for x in recs if x.get("k") == "bisect"]
        log("[ladder] profile=%s %s" % (profile, json.dumps(per[profile])))
    # C20 x C18 (ConcDrop.tla): the last handles of a long list released by 8 threads at once; the stack depth
    # reached while releasing nodes is measured through probe elements
    import vcheck as _vc
    conc = {}
    for cname in ("concdrop_ok", "concdrop_bad"):
        rcd = tlc_mc("ConcDrop.tla", "mc/MC_%s.cfg" % cname, workers=2, timeout=300, name=cname)
        if cname == "concdrop_ok":
            expect_mc_ok(rcd)
            conc["into_inner_states"] = rcd["distinct"]
        elif "Invariant C20_Bounded is violated" not in rcd["out"]:
            raise ToolError("ConcDrop.tla: the try_unwrap discipline is expected to violate C20_Bounded:\n" + rcd["out"][-1000:])
    crate = _vc.scratch_crate(os.path.join(_vc.VERIF, "autotraits"))
    rcb, ob = sh(["cargo", "build", "--offline", "--release"], 1200, env=_vc.cargo_env(), cwd=crate)
    if rcb != 0:
        conc["probe"] = "not run: the thread-using client crate does not build against this tree (see C18)"
    else:
        cdo = os.path.join(workdir, "cdrop.ndjson")
        rcc, oc = sh([os.path.join(crate, "target", "release", "dropdepth"), cdo, "300" if tier == "quick" else "3000"], 1800)
        if rcc != 0:
            rec = json.dumps({"k": "cdrop", "n": 4000, "holders": 8, "rounds": 0, "seqdepth": 0, "maxdepth": -1, "status": "aborted rc=%s" % rcc})
            raise Violation(pid, _write_replay(pid, seed, "cdrop", [rec]), "process aborted while 8 threads released the last handles of a long list (rc=%s)" % rcc)
        v = validate_trace(cdo, pid, cfg="Probe.cfg", module="DropTrace.tla")
        fails = []
        if not v["accepted"]:
            lines = _vc.read_events(cdo)
            for (p_, ln, what) in v["fails"]:
                fails.append((int(ln), what, lines[int(ln) - 1].strip()))
            if not fails:
                raise ToolError("DropTrace rejected the concurrent-drop records without naming one:\n" + v["out"][-1000:])
        findings += report_probe_fails(pid, fails, seed, "cdrop", lambda rec: "concurrent drop " + rec[:60])
        conc["probe"] = [json.loads(x) for x in _vc.read_events(cdo)][:2]
        log("[cdrop] %s" % json.dumps(conc["probe"]))
    # beyond the listed properties: linked_list.rs against its sequential meaning (observation only)
    extra = {}
    try:
        pl = os.path.join(workdir, "plist.ndjson")
        rc, o = sh([os.path.join(build_harness("release"), "probe"), "plist", str(seed), "20000" if tier == "quick" else "200000", pl], 900)
        if rc == 0:
            pv = validate_trace(pl, pid, cfg="Probe.cfg", module="PListTrace.tla")
            extra = {"linked_list_conformance_with_sequence_semantics": pv["accepted"], "operations": pv["lines"]}
    except ToolError as te:
        extra = {"linked_list_conformance": "not evaluated: %s" % str(te)[:100]}
    cov = {
        "beyond_properties": extra,
        "concurrent_drop": conc,
        "states": loop["distinct"] + glue["distinct"], "transitions": loop["generated"] + glue["generated"],
        "traces_validated_against_impl": 1 + 2,
        "evaluations": total_runs + r["lines"], "distinct_nontrivial": total_runs,
        "rule": "S: PList.tla, all programs of append/clone/tail/drop over <= 7 nodes and <= 3 handles under both drop disciplines (loop: stack depth <= 1 proved "
                "for the model; glue: violates any bound, as expected). Binding by observation: capture-free games of n turns (ladder %s) played through the public API "
                "in child processes on a 2 MiB thread, final state cloned, queried (at step 0 and, on a clone walked through one more turn, at steps 1, 2 and 3) and dropped; minimal surviving stack bisected at n=2000 and n=32000; in two build "
                "profiles; DropTrace.tla accepts iff all runs survive and the minimal stack does not grow with n. First 3000 turns also trace-validated (PROP=ALL). "
                "Non-trivial = every ladder run (history far beyond any recursion the stack could hold)" % ladder,
        "samples": samples, "ladder": per, "exhaustive": False,
    }
    return cov, TRUSTED[:3] + ["stack depth is observed at process level (abort / survival / bisection), not by TLC"], findings


def _write_replay(pid, seed, tag, recs):
    from vcheck import REPLAYS
    os.makedirs(REPLAYS, exist_ok=True)
    dst = os.path.join(REPLAYS, "%s-%s-%s.ndjson" % (pid, seed, tag))
    with open(dst, "w") as f:
        for r in recs:
            f.write(r + "\n")
    return dst


def c11(pid, tier, seed, workdir):
    bindir = build_harness("release")
    mcs = []
    with cf.ThreadPoolExecutor(max_workers=2) as ex:
        futs = [ex.submit(tlc_mc, *MC[name][:2], workers=MC[name][2], timeout=MC[name][3], name=name) for name in ("sym33", "sym44")]
        shards = [("twins", 3000)] * 10 if tier == "quick" else [("twins", 10000)] * 42
        results, paths = run_shards(pid, bindir, shards, seed, tier, workdir, cfg="ProbeHash.cfg", module="TwinTrace.tla", binary="twins")
        for f in futs:
            mcs.append(expect_mc_ok(f.result()))
    seen = set()
    total = 0
    games = 0
    sample = None
    import hashlib
    for p in paths:
        with open(p, encoding="utf-8") as f:
            for line in f:
                e = json.loads(line)
                total += 1
                if e["ev"] == "reset":
                    games += 1
                o = e["v"][0]
                if o["pp"][0] != 0 or o["off"] != o["norep"] or any(o["pv"]) or o["term"] != 0:
                    seen.add(hashlib.blake2b(json.dumps([o["b"], o["s"], o["st"], o["pp"], e["a"]]).encode(), digest_size=12).digest())
                    if sample is None:
                        sample = {"a": e["a"], "base": {k: o[k] for k in ("s", "st", "pp", "off", "norep", "term")},
                                  "mirror": {k: e["v"][1][k] for k in ("s", "st", "pp", "off", "norep", "term")}}
    withheld = sum((r.get("counts") or [0, 0])[0] for r in results)
    captures = sum((r.get("counts") or [0, 0])[1] for r in results)
    cov = {
        "states": sum(m["distinct"] for m in mcs), "transitions": sum(m["generated"] for m in mcs),
        "traces_validated_against_impl": games, "events_validated": total, "evaluations": 4 * total,
        "distinct_nontrivial": len(seen),
        "rule": "each event = the observations of 4 engine instances playing a game and its mirror / colour-swap / both images in lock-step; judged only with the maps of "
                "ArimaaSym.tla; non-trivial = base state with a push/pull status, a withheld action, a capturing action or a result; distinct by (board, side, step, status, action). "
                "S: TLC checks on every reachable state of 3x3 and 4x4 models that the specification itself commutes with the maps",
        "samples": [sample] if sample else [{"note": "no non-trivial event"}],
        "category_counts": {"events with a withheld action": withheld, "events with a capturing action": captures},
        "spec_models": [{"model": m["name"], "distinct_states": m["distinct"], "seconds": m["seconds"]} for m in mcs],
        "exhaustive": False,
    }
    return cov, TRUSTED, []


def scan_interior_mutability():
    """Syntactic scan of /repo/src for constructs that would invalidate the model's assumption that
    published states are only read (plain loads) - recorded in the evidence, never a violation."""
    import re
    import vcheck
    pat = re.compile(r"\b(Cell|RefCell|UnsafeCell|Mutex|RwLock|Atomic[A-Z]\w*|OnceCell|OnceLock|Lazy|static\s+mut|thread_local|Rc)\b|\bunsafe\b")
    hits = []
    srcdir = os.path.join(vcheck.REPO, "src")
    for fn in sorted(os.listdir(srcdir)):
        if not fn.endswith(".rs"):
            continue
        with open(os.path.join(srcdir, fn), encoding="utf-8", errors="replace") as f:
            for k, line in enumerate(f, 1):
                code = line.split("//")[0]
                if pat.search(code):
                    hits.append("%s:%d: %s" % (fn, k, line.strip()[:120]))
    return hits


def c18(pid, tier, seed, workdir):
    import vcheck
    from vcheck import sh, cargo_env, REPLAYS
    bindir = build_harness("release")   # the main harness does not require Send/Sync
    # (i) compile probe: a client crate that requires Send + Sync of the public types
    crate = vcheck.scratch_crate(os.path.join(vcheck.VERIF, "autotraits"))
    rc, out = sh(["cargo", "build", "--offline", "--release"], 1200, env=cargo_env(), cwd=crate)
    if rc != 0:
        if ("cannot be sent between threads safely" in out or "cannot be shared between threads safely" in out
                or ("E0277" in out and ("Send" in out or "Sync" in out))):
            os.makedirs(REPLAYS, exist_ok=True)
            dst = os.path.join(REPLAYS, "%s-%s-compile.txt" % (pid, seed))
            with open(dst, "w") as f:
                f.write(out)
            raise Violation(pid, dst, "a client crate requiring Send + Sync of the engine's public types no longer compiles")
        raise ToolError("autotraits crate failed to build for a reason other than Send/Sync:\n" + out[-3000:])
    log("[compile-probe] Send + Sync client crate builds")
    tbin = os.path.join(crate, "target", "release")
    # (ii) all interleavings of the model
    mcs = [expect_mc_ok(tlc_mc("SharedExpand.tla", "mc/MC_shared.cfg", workers=4, timeout=600, name="shared2x2")),
           expect_mc_ok(tlc_mc("SharedExpand.tla", "mc/MC_shared3.cfg", workers=4, timeout=600, name="shared3x1"))]
    hits = scan_interior_mutability()
    # (iii) concurrent = sequential on the real code
    nshards, rounds = (10, 100) if tier == "quick" else (28, 400)
    os.makedirs(workdir, exist_ok=True)
    paths = []
    for k in range(nshards):
        out_k = os.path.join(workdir, "threads_%02d.ndjson" % k)
        rc, o = sh([os.path.join(tbin, "threads"), str(seed * 100 + k), str(rounds), out_k], 1800, env={"VERIF_REPO": vcheck.REPO})
        if rc != 0:
            # an abort of the whole process while threads expand a shared state is data
            os.makedirs(REPLAYS, exist_ok=True)
            dst = os.path.join(REPLAYS, "%s-%s-abort%02d.txt" % (pid, seed, k))
            with open(dst, "w") as f:
                f.write("threads %d %d aborted rc=%s\n%s" % (seed * 100 + k, rounds, rc, o[-3000:]))
            raise Violation(pid, dst, "process aborted while 16 threads expanded a shared state (rc=%s)" % rc)
        paths.append(out_k)
    results = []
    with cf.ThreadPoolExecutor(max_workers=14) as ex:
        for r in ex.map(lambda p: validate_trace(p, pid), paths):
            results.append(r)
    for k, r in enumerate(results):
        if not r["accepted"]:
            replay = extract_replay(pid, r["path"], r["rejected_at"], seed, "%02d" % k)
            raise Violation(pid, replay, "; ".join("%s line %s: %s" % f for f in r["fails"]) or "unmatched event")
    tdig = sum((r["counts"] + [0] * 24)[19] for r in results)
    reobs = sum((r["counts"] + [0] * 24)[20] for r in results)
    log("[threads] %d shards, %d concurrent expansions compared, %d shared parents re-observed" % (len(paths), tdig, reobs))
    with open(paths[0], encoding="utf-8") as f:
        samples = [json.loads(l) for l in f if '"ev":"tdig"' in l][:3]
    cov = {
        "states": sum(m["distinct"] for m in mcs), "transitions": sum(m["generated"] for m in mcs),
        "traces_validated_against_impl": len(paths),
        "evaluations": tdig, "distinct_nontrivial": reobs * 16,
        "rule": "S: PlusCal model SharedExpand.tla, every interleaving of the atomic steps (field loads, Arc clone fetch-add, node allocation, publish, iterative drop) for "
                "2 processes x 2 expansions and 3 processes x 1 expansion: published states immutable, no use after free, children = sequential function, refcounts exact. "
                "Code: compile probe (client crate requiring Send + Sync of 13 public types), and %d rounds in which one mid-game state is shared by reference and by Arc "
                "between 16 OS threads that each expand it 3 times in random order with clone/drop churn; the digest of the complete observation of every child must equal "
                "the single-threaded one and the parent's observation must be unchanged after the join. Schedules on the real code are sampled, not enumerated. "
                "distinct_nontrivial = shared parents x 16 threads" % reobs,
        "samples": samples,
        "interior_mutability_scan": hits or ["no Cell/RefCell/Mutex/Atomic/unsafe/static mut/Rc/thread_local in /repo/src: for safe Rust without interior mutability, "
                                            "shared & access is data-race free, so the model's atomic-load abstraction of field reads is sound"],
        "model_to_code_transfer_assumption_established": not hits,
        "exhaustive": False,
    }
    return cov, TRUSTED[:3] + ["thread schedules on the real code are sampled (16 threads, barrier start, random yields)"], []


PROPS = {}
PROPS["C18"] = c18
PROPS["C11"] = c11
PROPS["C20"] = c20
PROPS["C16"] = c16
PROPS["C17"] = c17
for _p in ("C01", "C02", "C03", "C04", "C05", "C06", "C07", "C08", "C09", "C10", "C12", "C13", "C14", "C15", "C19"):
    PROPS[_p] = trace_property
PROPS["C15"] = c15


PROBE_MODULES = {"C16": "NotationTrace.tla", "C17": "HashTrace.tla", "C20": "DropTrace.tla"}
PROBE_REPLAY_HINT = {"C15": "DiagramTrace.tla"}
PROBE_MODULES["C11"] = "TwinTrace.tla"
PROBE_CFG = {"C17": "ProbeHash.cfg", "C11": "ProbeHash.cfg"}


def replay(pid, path):
    """Re-execute a replay file on the engine as it is now and validate the fresh observations with the
    conjuncts of pid.  Game traces are re-driven (root re-created, logged actions re-applied); notation and
    diagram records are re-parsed.  Other records (hash groups, ladder runs, thread digests, compiler output)
    are re-validated as stored - re-run ./check <ID> to reproduce those."""
    import vcheck
    from vcheck import sh
    path = os.path.abspath(path)
    if path.endswith(".txt"):
        log(open(path, errors="replace").read()[-3000:])
        log("VIOLATION property=%s replay=%s" % (pid, path))
        return 1
    first = open(path, encoding="utf-8").readline()
    fresh = os.path.join(vcheck.WORK, "replay_%s.ndjson" % pid)
    os.makedirs(vcheck.WORK, exist_ok=True)
    is_game = first.startswith('{"ev":"reset"')
    has_threads = is_game and any('"ev":"tdig"' in l or '"ev":"pdig"' in l for l in open(path, encoding="utf-8"))
    if is_game and pid != "C11" and not has_threads:
        bindir = build_harness("release")
        rc, o = sh([os.path.join(bindir, "redrive"), path, fresh], 600)
        if rc != 0:
            raise ToolError("redrive failed: %s" % o[-500:])
        r = validate_trace(fresh, pid)
        what = "re-driven on the current engine"
    elif '"k":"' in first and pid in ("C16", "C15"):
        bindir = build_harness("release")
        fam = "notation" if pid == "C16" else "diagram"
        rc, o = sh([os.path.join(bindir, "probe"), "rerun", fam, path, fresh], 600)
        if rc != 0:
            raise ToolError("probe rerun failed: %s" % o[-500:])
        r = validate_trace(fresh, pid, cfg="Probe.cfg", module=PROBE_MODULES[pid] if pid == "C16" else "DiagramTrace.tla")
        what = "re-parsed by the current engine"
    elif pid in PROBE_MODULES:
        r = validate_trace(path, pid, cfg=PROBE_CFG.get(pid, "Probe.cfg"), module=PROBE_MODULES[pid])
        what = "stored records re-validated"
    else:
        r = validate_trace(path, pid)
        what = "stored events re-validated"
    if r["accepted"]:
        log("replay accepted (%s): %s (%d events)" % (what, path, r["lines"]))
        return 0
    log("replay rejected (%s) at line %s: %s" % (what, r["rejected_at"], "; ".join("%s line %s: %s" % f for f in r["fails"])))
    log("VIOLATION property=%s replay=%s" % (pid, path))
    return 1
