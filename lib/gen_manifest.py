#!/usr/bin/env python3
"""Regenerates /verif/MANIFEST.json from the table below (single source of truth)."""
import json, os
VERIF = os.path.dirname(os.path.dirname(os.path.abspath(__file__)))

NOTE_T = ("Trusted: TLC 1.8.0 + CommunityModules Json; rustc/cargo; the ~400-line projection code of the harness; my TLA+ reading of the "
          "statement. Positions are enumerated/sampled as stated in the evidence (not all positions); no 64-bit hash collision among visited positions.")

CHECKS = {
 "C01": ("TLC: rules spec on 2x2/3x3 models; constructive RuleMoves/NextPP = declarative labelled-turn definition (ArimaaTurns) on 3x3 and sparse 8x8 roots; README's 2467 first moves "
         "counted on the spec. Conformance both ways: engine traces (8 drivers incl. two-ply focus and edge-wrap families) and TLC-generated behaviours on the real geometry "
         "(scenarios, pattern roots, diagrams, TLC-found witnesses) validated by ArimaaTrace.tla: rule-only list = RuleActions at every event",
         "6.C01", "TLA+ spec + TLC; trace validation of engine logs (impl->spec) and replay of TLC behaviours (spec->impl)"),
 "C02": ("Every recorded transition is judged against the declarative step effect C02Effect (one piece, one square, unsupported trap pieces removed, "
         "nothing else); TLC checks the same action property on micro/mini models", "6.C02", "TLA+ action property + trace validation"),
 "C03": ("Side/step/move-number/status of every recorded transition equal the spec successor Apply(pre,a); TLC checks C03_Inv/C03_Action exhaustively on small boards",
         "6.C03", "TLA+ invariants/action property + trace validation"),
 "C04": ("is_terminal of every recorded state equals the spec's Result order evaluated on the logged board; includes mid-turn and setup clauses",
         "6.C04", "TLA+ Result operator + trace validation"),
 "C05": ("Ghost history of exact boards maintained by the trace spec; every offered turn end is checked for changed board and <= 2 occurrences (confined steered games, region "
         "scenarios explored by TLC to 10 turns, TLC-found witnesses of rare all-withheld states); TLC proves NoThird/Changed on micro boards over whole games", "6.C05", "TLA+ invariant over ghost history + trace validation"),
 "C06": ("Offered list = rule-only list minus Withheld (exact boards, never-truncated ghost history), same order, at every event; TLC proves OfferedImpl = Offered "
         "(truncation at captures is harmless) on micro/mini models", "6.C06", "TLA+ refinement invariant + trace validation"),
 "C07": ("Relations between is_terminal, has_move, can_pass(true/false) and both action lists checked at every event, including TLC-found witnesses (count-based VIEW, never-invariants) "
         "for every branch of the has-move cascade: all withheld, pull-only, push-only, blocked pending push; TLC checks the spec-level relations",
         "6.C07", "TLA+ invariants + trace validation"),
 "C08": ("transposition_hash = from-scratch hash (public constructors, rebuilt bitboards) at every event; recorded hash history = hashes observed at those turn starts; "
         "eq/std-hash equality with an independently built state", "6.C08", "trace validation against ghost history of hashes"),
 "C09": ("Random complete setups through the real placement phase: every placement judged against NextHomeSquare/Placeable/Apply; TLC enumerates all count vectors",
         "6.C09", "TLA+ setup model + trace validation"),
 "C10": ("All raw views (8 bitboards, bits_for_piece x12, masks, square lookup, printed diagram) compared with the abstract board at every event; "
         "material bound and trap cleanliness", "6.C10", "trace validation (view consistency conjunct)"),
 "C12": ("Logged push/pull status = NextPP of the statement for every transition; pending push => rule-only list = PushCompletions and non-empty; TLC checks the status invariants",
         "6.C12", "TLA+ NextPP + trace validation"),
 "C13": ("Preview of every listed action (not only the one played) = the spec's capture set; played action's preview = the piece that disappeared; <= 1 capture per step (TLC + traces)",
         "6.C13", "TLA+ CapturedSq + trace validation"),
 "C14": ("piece_board_for_step(i) for all i <= step and previous_piece_boards compared with the ghost list of boards that were current earlier in the turn",
         "6.C14", "trace validation against ghost turn boards"),
 "C15": ("Every recorded state: printed text = Diagram!PrintPos, re-parse gives same board/side/move number/step 0/one-entry history/same text, same hash at turn start; "
         "(b) bounded enumeration of malformed diagram shapes under catch_unwind", "6.C15", "TLA+ Diagram module + trace validation + shape enumeration"),
 "C16": ("TLC checks the notation design (263 action values, printing injective, square<->index<->bit conversions); every string up to length 3 (quick) / 4 (thorough) "
         "over a 28-symbol alphabet incl. non-ASCII is parsed by the real parsers under catch_unwind in two build profiles and the outcome compared with the "
         "declarative parser of Notation.tla; all values round-trip", "6.C16", "TLA+ notation spec + exhaustive bounded probe validated by TLC"),
 "C17": ("Complete enumeration of the feature universe (234,311 single-feature pairs) realised on the real tables through public constructors, on the empty base and "
         "random bases; HashTrace.tla checks that the groups are the universe of ArimaaHash.tla and that hashes are pairwise distinct", "6.C17",
         "TLA+ feature universe + exhaustive probe validated by TLC"),
 "C19": ("Every public query and every listed action is called at every visited state under catch_unwind in a build with overflow checks; a panic is an event "
         "without a spec action, so the trace is rejected; TLC checks the invariants behind the explicit panic sites", "6.C19",
         "trace validation (panic = unmatched event) + TLA+ invariants"),
}

CHECKS["C11"] = ("Oracle-free twin validation: a game and its three symmetric images are played in lock-step on four engine instances and every observation (board, "
                 "status, both action lists, previews, results) must be the image of the base under ArimaaSym's maps; TLC separately checks that the spec commutes "
                 "with the maps on all reachable states of 3x3/4x4 models", "6.C11", "TLA+ symmetry maps + twin-trace validation")
CHECKS["C18"] = ("PlusCal model SharedExpand.tla: TLC explores every interleaving of the atomic steps of concurrent expansion of shared immutable states over the "
                 "refcounted persistent list (immutability, no use-after-free, results = sequential, exact refcounts); bound to the code by a compile probe (client crate "
                 "requiring Send+Sync) and by a 16-thread driver whose per-thread observation digests are validated by the trace spec against the sequential expansion", "6.C18",
                 "PlusCal/TLA+ interleaving model + TLC; compile probe; concurrent trace validation")
CHECKS["C20"] = ("PList.tla models the persistent history list with refcounts and two drop disciplines; TLC proves the iterative discipline stack-bounded and the "
                 "recursive one not; the code is bound to the iterative discipline by process-level observation (ladder of capture-free games up to 400k/1.2M turns on a "
                 "2 MiB stack, stack-size bisection at two lengths, two build profiles) validated by DropTrace.tla; first 3000 turns trace-validated", "6.C20",
                 "TLA+ PList model + TLC; conformance by process-level observation validated by TLC")


def main():
    checks = []
    for pid in sorted(CHECKS):
        text, ref, tech = CHECKS[pid]
        checks.append({
            "property_id": pid,
            "quick_cmd": "./check %s --tier quick" % pid,
            "thorough_cmd": "./check %s --tier thorough" % pid,
            "evidence_file": "/verif/evidence/%s.json" % pid,
            "replay_cmd_template": "./check %s --replay {path}" % pid,
            "engine": "tla-probe" if pid in ("C16", "C17", "C20") else "tla-trace",
            "level_claimed": {"category": "model_checking", "text": text, "design_ref": "DESIGN.md section " + ref},
            "level_note": NOTE_T,
            "technique": tech,
        })
    props = [json.loads(l)["id"] for l in open(os.path.join(VERIF, "properties.jsonl"))]
    na = [{"property_id": p, "reason": "check under construction in this session (see DESIGN.md section 6); not claimed until its machinery is committed"}
          for p in props if p not in CHECKS]
    m = {
        "version": 1,
        "setup_cmd": "cd /verif/harness && CARGO_NET_OFFLINE=true cargo build --offline --release && CARGO_NET_OFFLINE=true cargo build --offline --profile plain && cd /verif/autotraits && CARGO_NET_OFFLINE=true cargo build --offline --release",
        "hooks": {"guard": "arimaa_engine_step_verif",
                  "enable": "RUSTFLAGS='--cfg arimaa_engine_step_verif' (reserved; no hook is currently needed: the public API exposes the abstract state)",
                  "baseline_off_cmd": "cd /repo && cargo test --workspace --no-fail-fast --offline",
                  "source_commits": [], "add_only": True},
        "engines": [
            {"name": "tla-spec", "path": "/verif/spec", "serves_properties": sorted(CHECKS),
             "kind_free_text": "explicit TLA+ specification of Arimaa (ArimaaBoard/Rules/Game) model-checked with TLC"},
            {"name": "tla-trace", "path": "/verif/spec/ArimaaTrace.tla", "serves_properties": sorted(CHECKS),
             "kind_free_text": "trace validation: NDJSON logs of the real engine (harness/src/bin/record.rs) validated by TLC against the spec"},
        ],
        "checks": checks,
        "not_applicable": na,
        "notes": "Entry point ./check <ID> [--tier quick|thorough] [--replay path]; env VERIF_SEED, VERIF_TIER honoured. Exit 2 = tool error.",
    }
    with open(os.path.join(VERIF, "MANIFEST.json"), "w") as f:
        json.dump(m, f, indent=1)
    print("wrote MANIFEST.json with", len(checks), "checks,", len(na), "not_applicable")

if __name__ == "__main__":
    main()
