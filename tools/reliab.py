#!/usr/bin/env python3
"""reliab.py <seeds e.g. 2,3,4> [names...] : detection reliability across seeds.
Each stored seeded change is applied to a scratch worktree (/tmp/wt_rel, never /repo) and the check of its
property is run with VERIF_REPO pointing there, once per seed.  Results -> /verif/seeded/reliability.json"""
import json, os, re, subprocess, sys
seeds = [int(x) for x in sys.argv[1].split(",")]
names = sys.argv[2:] or sorted(d for d in os.listdir("/verif/seeded") if os.path.isdir("/verif/seeded/" + d))
WT = "/tmp/wt_rel"
def sh(cmd, **kw):
    return subprocess.run(cmd, shell=isinstance(cmd, str), stdout=subprocess.PIPE, stderr=subprocess.STDOUT, **kw)
if not os.path.isdir(WT):
    sh(["git", "-C", "/repo", "worktree", "add", "-q", WT, "HEAD"])
out = "/verif/seeded/reliability.json"
res = json.load(open(out)) if os.path.exists(out) else {}
for n in names:
    meta = json.load(open("/verif/seeded/%s/meta.json" % n))
    prop = (meta.get("caught_by") or [meta["property"]])[0] if meta["property"] not in (meta.get("caught_by") or [meta["property"]]) else meta["property"]
    sh("git checkout -q -- . && git clean -fdq -e target", cwd=WT)
    if sh(["git", "apply", "/verif/seeded/%s/patch.diff" % n], cwd=WT).returncode != 0:
        res[n] = {"error": "patch does not apply"}; continue
    hits = []
    for s in seeds:
        env = dict(os.environ, VERIF_REPO=WT, VERIF_SEED=str(s))
        o = sh(["./check", prop], cwd="/verif", env=env, timeout=3000).stdout.decode("utf-8", "replace")
        hits.append(1 if re.search(r"^VIOLATION property=", o, re.M) else (0 if re.search(r"^OK property", o, re.M) else -1))
    res[n] = {"check": prop, "seeds": seeds, "caught": hits}
    print(n, prop, hits, flush=True)
    json.dump(res, open(out, "w"), indent=1, sort_keys=True)
sh("git checkout -q -- .", cwd=WT)
sh(["git", "-C", "/repo", "worktree", "remove", "--force", WT])
print("RELIAB DONE")
