#!/bin/sh
# tools/thorough.sh [ids...] : run the thorough tier of the given checks (default: all) one after the other
(cd harness && cargo build --offline --release >/dev/null 2>&1 && cargo build --offline --profile plain >/dev/null 2>&1; cd ../autotraits && cargo build --offline --release >/dev/null 2>&1)
ids="$@"; [ -z "$ids" ] && ids="C17 C16 C05 C09 C11 C18 C20 C15 C01 C02 C03 C04 C06 C07 C08 C10 C12 C13 C14 C19"
for p in $ids; do
  start=$(date +%s)
  ./check $p --tier thorough 2>&1 | grep -E "^OK|VIOLATION|TOOL|violation|KNOWN"
  echo "   ($p took $(( $(date +%s) - start )) s)"
done
echo THOROUGH DONE
