#!/usr/bin/env python3
"""find_witness.py <root.ndjson (one root)> <Target invariant of MC_gen.tla> <name> [timeout_s] [workers]
Runs TLC (spec/mc/MC_gen.tla, count-based VIEW, BFS) on the given region-restricted root until the
"never" invariant <Target> is violated, extracts the action path of the counterexample - a real game of the
SPECIFICATION that reaches the rare state - and stores root + path under /verif/scenarios/witness_<name>.*
The stored witnesses are replayed into the engine by every check run (lib/props.py, gen stage)."""
import os, re, subprocess, sys, json
VERIF = os.path.dirname(os.path.dirname(os.path.abspath(__file__)))
SPEC = os.path.join(VERIF, "spec")
root, target, name = sys.argv[1:4]
timeout = int(sys.argv[4]) if len(sys.argv) > 4 else 900
workers = sys.argv[5] if len(sys.argv) > 5 else "12"
cfg = os.path.join("/tmp", "MC_witness_%s.cfg" % name)
open(cfg, "w").write("""CONSTANTS
  W = 8
  H = 8
  Traps = {19, 22, 43, 46}
  Complement <- StdComplement
  Roots <- NoRoots
  MaxTurns = 0
  StopAtResult = TRUE
INIT GenInit
NEXT GenAct
VIEW CountView
INVARIANT %s
CHECK_DEADLOCK FALSE
""" % target)
cp = "/opt/veriftools/tla/tla2tools.jar:/opt/veriftools/tla/CommunityModules-deps.jar"
cmd = ["java", "-XX:+UseParallelGC", "-Xmx24g", "-Xss64m", "-cp", cp, "tlc2.TLC", "-workers", workers, "-metadir", "/tmp/tlcw_wit_" + name,
       "-cleanup", "-noGenerateSpecTE", "-nowarning", "-config", cfg, "mc/MC_gen.tla"]
env = dict(os.environ); env["ROOTS"] = os.path.abspath(root)
try:
    out = subprocess.run(cmd, cwd=SPEC, env=env, stdout=subprocess.PIPE, stderr=subprocess.STDOUT, timeout=timeout).stdout.decode()
except subprocess.TimeoutExpired as e:
    print("timeout; partial:", (e.stdout or b"").decode()[-400:]); sys.exit(3)
m = re.search(r"(\d[\d,]*) states generated, (\d[\d,]*) distinct", out)
print("states:", m.group(0) if m else "?")
if "is violated" not in out:
    print("no witness found (target unreachable within the root's turn bound)"); sys.exit(1)
i = out.rindex("/\\ path =")
j = out.index("/\\ ", i + 5) if "/\\ " in out[i + 5:] else len(out)
nums = [int(x) for x in re.findall(r"-?\d+", out[i:j])]
pairs = ", ".join("<<%d, %d>>" % (nums[k], nums[k + 1]) for k in range(0, len(nums) - 1, 2))
r = json.loads(open(root).readline()); r["target"] = target
acts = [(nums[k], nums[k + 1]) for k in range(0, len(nums) - 1, 2)]


def msq(k, v):
    row, col = (k - 1) // 8, (k - 1) % 8
    if v & 1: col = 7 - col
    if v & 2: row = 7 - row
    return row * 8 + col + 1


def mdir(d, v):
    if v & 1 and d in (2, 4): d = 6 - d
    if v & 2 and d in (1, 3): d = 4 - d
    return d


def mcell(c, v):
    if c == 0 or not (v & 2): return c
    return c + 6 if c <= 6 else c - 6


# the witness and its three symmetric images (mirror, colour swap + rank flip, both): the same
# rare state for the other colour / the other wing
for v in range(4):
    b = [0] * 64
    for k in range(1, 65):
        b[msq(k, v) - 1] = mcell(r["b"][k - 1], v)
    rv = dict(r, b=b, s=(3 - r["s"]) if v & 2 else r["s"], reg=[msq(k, v) for k in r["reg"]], tag="witness-%s/v%d" % (name, v))
    pv = ", ".join("<<%d, %d>>" % ((msq(a, v), mdir(d, v)) if a >= 1 else (a, d)) for a, d in acts)
    dst = os.path.join(VERIF, "scenarios", "witness_%s_v%d" % (name, v))
    open(dst + ".root.ndjson", "w").write(json.dumps(rv) + "\n")
    open(dst + ".path.txt", "w").write('"P 1 <<%s>>"\n' % pv)
print("witness with %d actions stored in scenarios/witness_%s_v0..v3.*" % (len(acts), name))
