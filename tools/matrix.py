#!/usr/bin/env python3
"""matrix.py <seed dir name e.g. C05_b> ... : which trace conjuncts catch a seeded change?
For each named change under /verif/seeded: apply the patch to a SCRATCH worktree (never /repo), rebuild a scratch copy of the harness, record ONE common
set of traces (all drivers + stored witnesses), then validate the same traces once per
property conjunct (PROP=C01..C15,C19).  Prints / stores the row of the change in the property x change matrix.
(The probe-based checks C11, C16, C17, C18, C20 have their own inputs; they are run with tools/seedtrial.py.)"""
import concurrent.futures as cf, json, os, subprocess, sys, glob
sys.path.insert(0, "/verif/lib")
import vcheck
PROPS = ["C01", "C02", "C03", "C04", "C05", "C06", "C07", "C08", "C09", "C10", "C12", "C13", "C14", "C15", "C19"]
SHARDS = [("random", 4000), ("contact", 4000), ("diagrams", 3000), ("setup", 2500), ("confined", 5000), ("confined", 5000),
          ("focus", 8000), ("focus", 8000), ("results", 100000)]

def sh(cmd, **kw):
    return subprocess.run(cmd, shell=isinstance(cmd, str), stdout=subprocess.PIPE, stderr=subprocess.STDOUT, **kw)

SCR = "/tmp/mx"          # scratch: a worktree of /repo and a copy of the harness that depends on it


def scratch_setup():
    os.makedirs(SCR, exist_ok=True)
    if not os.path.isdir(os.path.join(SCR, "repo")):
        sh(["git", "-C", "/repo", "worktree", "add", "-q", os.path.join(SCR, "repo"), "HEAD"])
    h = os.path.join(SCR, "harness")
    sh("rm -rf %s/src %s/Cargo.toml %s/.cargo" % (h, h, h))
    os.makedirs(h, exist_ok=True)
    sh("cp -r /verif/harness/src /verif/harness/Cargo.toml /verif/harness/Cargo.lock /verif/harness/.cargo %s/" % h)
    t = open(os.path.join(h, "Cargo.toml")).read().replace('path = "/repo"', 'path = "%s/repo"' % SCR)
    open(os.path.join(h, "Cargo.toml"), "w").write(t)


def row(name):
    """The patch is applied to a SCRATCH worktree (never to /repo), the harness copy is rebuilt against it."""
    d = os.path.join("/verif/seeded", name)
    repo = os.path.join(SCR, "repo")
    sh("git checkout -q -- . && git clean -fdq -e target", cwd=repo)
    if sh(["git", "apply", os.path.join(d, "patch.diff")], cwd=repo).returncode != 0:
        print("patch does not apply", name); return None
    work = "/tmp/mx/work_" + name
    os.makedirs(work, exist_ok=True)
    traces = []
    try:
        b = sh("cargo build --offline --release", cwd=os.path.join(SCR, "harness"))
        if b.returncode != 0:
            print("harness does not build with", name); return {"build": "failed"}
        bind = os.path.join(SCR, "harness", "target", "release")
        procs = []
        for k, (drv, n) in enumerate(SHARDS):
            out = os.path.join(work, "t%02d_%s.ndjson" % (k, drv))
            procs.append(subprocess.Popen([os.path.join(bind, "record"), drv, str(700 + k), str(n), out], env=dict(os.environ, VERIF_REPO=repo)))
            traces.append(out)
        for p in procs: p.wait()
        for f in sorted(glob.glob("/verif/scenarios/*.path.txt")):
            out = os.path.join(work, "w_" + os.path.basename(f)[:-9] + ".ndjson")
            sh([os.path.join(bind, "replay"), f, f[:-9] + ".root.ndjson", out, "1"])
            traces.append(out)
    finally:
        sh("git checkout -q -- .", cwd=repo)
    res = {}
    jobs = [(t, p) for p in PROPS for t in traces]
    def one(j):
        t, p = j
        try:
            r = vcheck.validate_trace(t, p)
            return (p, r["accepted"], r["fails"][:1])
        except Exception as e:
            return (p, None, str(e)[:100])
    with cf.ThreadPoolExecutor(max_workers=14) as ex:
        for p, ok, why in ex.map(one, jobs):
            if ok is False:
                res.setdefault(p, why[0][2] if why else "unmatched event (panic)")
    sh("rm -rf " + work)
    return res or {"none": "no trace conjunct tripped on these traces"}

if __name__ == "__main__":
    out = "/verif/seeded/matrix.json"
    m = json.load(open(out)) if os.path.exists(out) else {}
    scratch_setup()
    for name in sys.argv[1:]:
        if name in m and m[name]:
            continue
        r = row(name)
        m[name] = r
        print(name, "->", sorted(r.keys()) if r else r, flush=True)
        json.dump(m, open(out, "w"), indent=1, sort_keys=True)
    sh(["git", "-C", "/repo", "worktree", "remove", "--force", os.path.join(SCR, "repo")])
    sh("rm -rf " + SCR)
