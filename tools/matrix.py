#!/usr/bin/env python3
"""matrix.py <seed dir name e.g. C05_b> ... : which trace conjuncts catch a seeded change?
For each named change under /verif/seeded: apply the patch to /repo, rebuild the harness, record ONE common
set of traces (all drivers + stored witnesses), revert the patch, then validate the same traces once per
property conjunct (PROP=C01..C15,C19).  Prints / stores the row of the change in the property x change matrix.
(The probe-based checks C11, C16, C17, C18, C20 have their own inputs; they are run with tools/seedtrial.py.)"""
import concurrent.futures as cf, json, os, subprocess, sys, glob
sys.path.insert(0, "/verif/lib")
import vcheck
PROPS = ["C01", "C02", "C03", "C04", "C05", "C06", "C07", "C08", "C09", "C10", "C12", "C13", "C14", "C15", "C19"]
SHARDS = [("random", 5000), ("contact", 5000), ("contact", 5000), ("diagrams", 4000), ("setup", 3000), ("shuffle", 4000),
          ("confined", 6000), ("confined", 6000), ("confined", 6000)]

def sh(cmd, **kw):
    return subprocess.run(cmd, shell=isinstance(cmd, str), stdout=subprocess.PIPE, stderr=subprocess.STDOUT, **kw)

def row(name):
    d = os.path.join("/verif/seeded", name)
    if sh("git -C /repo status --porcelain").stdout.strip():
        print("refusing: /repo not clean"); sys.exit(2)
    if sh(["git", "-C", "/repo", "apply", os.path.join(d, "patch.diff")]).returncode != 0:
        print("patch does not apply", name); return None
    work = "/verif/work/matrix_" + name
    os.makedirs(work, exist_ok=True)
    traces = []
    try:
        b = sh("cargo build --offline --release", cwd="/verif/harness")
        if b.returncode != 0:
            print("harness does not build with", name); return {"build": "failed"}
        bind = "/verif/harness/target/release"
        procs = []
        for k, (drv, n) in enumerate(SHARDS):
            out = os.path.join(work, "t%02d_%s.ndjson" % (k, drv))
            procs.append(subprocess.Popen([os.path.join(bind, "record"), drv, str(700 + k), str(n), out], env=dict(os.environ, VERIF_REPO="/repo")))
            traces.append(out)
        for p in procs: p.wait()
        for f in sorted(glob.glob("/verif/scenarios/*.path.txt")):
            out = os.path.join(work, "w_" + os.path.basename(f)[:-9] + ".ndjson")
            sh([os.path.join(bind, "replay"), f, f[:-9] + ".root.ndjson", out, "1"])
            traces.append(out)
    finally:
        sh("git -C /repo checkout -- .")
    res = {}
    jobs = [(t, p) for p in PROPS for t in traces]
    def one(j):
        t, p = j
        try:
            r = vcheck.validate_trace(t, p)
            return (p, r["accepted"], r["fails"][:1])
        except Exception as e:
            return (p, None, str(e)[:100])
    with cf.ThreadPoolExecutor(max_workers=14) as ex:
        for p, ok, why in ex.map(one, jobs):
            if ok is False:
                res.setdefault(p, why[0][2] if why else "unmatched event (panic)")
    sh("rm -rf " + work)
    return res

if __name__ == "__main__":
    out = "/verif/seeded/matrix.json"
    m = json.load(open(out)) if os.path.exists(out) else {}
    for name in sys.argv[1:]:
        r = row(name)
        m[name] = r
        print(name, "->", sorted(r.keys()) if r else r, flush=True)
        json.dump(m, open(out, "w"), indent=1, sort_keys=True)
    sh("cd /verif/harness && cargo build --offline --release")
