#!/usr/bin/env python3
"""seedtrial.py confirm <ID> <variant>   - confirm a seeded change in the scratch worktree /tmp/wt_<ID>:
                                            demo passes without the patch; with the patch the whole existing
                                            suite passes and the demo fails
   seedtrial.py detect <ID> <variant> [check ids...] - apply the patch to /repo, run ./check for the listed
                                            properties (default: the seeded one), undo the patch
Results are appended to /tmp/seed_out/results.jsonl"""
import json, os, re, shutil, subprocess, sys, time

OUT = "/tmp/seed_out"

def sh(cmd, cwd=None, timeout=1800, env=None):
    e = dict(os.environ); e["CARGO_NET_OFFLINE"] = "true"
    if env: e.update(env)
    p = subprocess.run(cmd, cwd=cwd, shell=isinstance(cmd, str), stdout=subprocess.PIPE, stderr=subprocess.STDOUT, timeout=timeout, env=e)
    return p.returncode, p.stdout.decode("utf-8", "replace")

def record(r):
    with open(os.path.join(OUT, "results.jsonl"), "a") as f:
        f.write(json.dumps(r) + "\n")
    print(json.dumps(r))

def confirm(pid, var):
    wt = "/tmp/wt_%s" % pid
    d = os.path.join(OUT, pid, var)
    sh("git checkout -- . && git clean -fdq -e target", cwd=wt)
    os.makedirs(os.path.join(wt, "tests"), exist_ok=True)
    demo = os.path.join(wt, "tests", "demo_%s_%s.rs" % (pid, var))
    shutil.copy(os.path.join(d, "demo.rs"), demo)
    name = "demo_%s_%s" % (pid, var)
    rc0, o0 = sh(["cargo", "test", "--offline", "--test", name], cwd=wt)
    rc_a, oa = sh(["git", "apply", os.path.join(d, "patch.diff")], cwd=wt)
    os.remove(demo)
    rc1, o1 = sh(["cargo", "test", "--offline"], cwd=wt)
    suite = re.findall(r"test result: (\w+)\. (\d+) passed; (\d+) failed", o1)
    shutil.copy(os.path.join(d, "demo.rs"), demo)
    rc2, o2 = sh(["cargo", "test", "--offline", "--test", name], cwd=wt)
    sh("git checkout -- . && git clean -fdq -e target", cwd=wt)
    # a demo fails by a failed assertion, by aborting (stack overflow: C20) or by no longer compiling (Send/Sync bound: C18)
    fails = rc2 != 0 and ("test result: FAILED" in o2 or "SIGABRT" in o2 or "error[E0277]" in o2)
    ok = (rc0 == 0 and rc_a == 0 and rc1 == 0 and [s[1] for s in suite][:2] == ["120", "6"] and fails)
    record({"phase": "confirm", "id": pid, "variant": var, "demo_passes_clean": rc0 == 0, "patch_applies": rc_a == 0,
            "suite_with_patch": suite, "demo_fails_with_patch": fails, "confirmed": ok,
            "detail": "" if ok else (o0[-400:] + "\n--\n" + oa[-300:] + "\n--\n" + o1[-400:] + "\n--\n" + o2[-400:])})
    return ok

def detect(pid, var, checks):
    d = os.path.join(OUT, pid, var)
    if not os.path.exists(os.path.join(d, "patch.diff")):
        d = os.path.join("/verif/seeded", "%s_%s" % (pid, var))
    rc, o = sh("git -C /repo status --porcelain")
    if o.strip():
        print("refusing: /repo is not clean:\n" + o); return 2
    rc, o = sh(["git", "-C", "/repo", "apply", os.path.join(d, "patch.diff")])
    if rc != 0:
        print("patch does not apply to /repo: " + o); return 2
    res = {}
    try:
        for c in checks:
            t0 = time.time()
            rc, o = sh(["./check", c], cwd="/verif", timeout=3000)
            viol = re.findall(r"^VIOLATION property=(\S+) replay=(\S+)", o, re.M)
            what = re.findall(r"^violation: (.*)$", o, re.M)
            res[c] = {"exit": rc, "violation": viol, "what": what[:1], "secs": round(time.time() - t0, 1),
                      "tail": "" if rc in (0, 1) else o[-600:]}
    finally:
        sh("git -C /repo checkout -- .")
        sh("git -C /repo clean -fdq -e target")
        # evidence written while a seeded change was applied must not stay in the tree
        sh("git -C /verif checkout -- evidence")
    record({"phase": "detect", "id": pid, "variant": var, "checks": res,
            "caught_by": [c for c, r in res.items() if r["exit"] == 1 and r["violation"]]})
    return 0

def sdetect(pid, var, checks, slot):
    """Development variant of detect: the patch goes to a scratch worktree /tmp/wt_det<slot> and the checks run
    with VERIF_REPO pointing there, so /repo is not touched and several can run side by side."""
    d = os.path.join(OUT, pid, var)
    if not os.path.exists(os.path.join(d, "patch.diff")):
        d = os.path.join("/verif/seeded", "%s_%s" % (pid, var))
    wt = "/tmp/wt_det%s" % slot
    if not os.path.isdir(wt):
        sh(["git", "-C", "/repo", "worktree", "add", "-q", wt, "HEAD"])
    sh("git checkout -q -- . && git clean -fdq -e target", cwd=wt)
    rc, o = sh(["git", "apply", os.path.join(d, "patch.diff")], cwd=wt)
    if rc != 0:
        print("patch does not apply: " + o); return 2
    res = {}
    for c in checks:
        t0 = time.time()
        rc, o = sh(["./check", c], cwd="/verif", timeout=3000, env={"VERIF_REPO": wt})
        viol = re.findall(r"^VIOLATION property=(\S+) replay=(\S+)", o, re.M)
        what = re.findall(r"^violation: (.*)$", o, re.M)
        res[c] = {"exit": rc, "violation": viol, "what": what[:1], "secs": round(time.time() - t0, 1), "tail": "" if rc in (0, 1) else o[-600:]}
    sh("git checkout -q -- .", cwd=wt)
    record({"phase": "sdetect", "id": pid, "variant": var, "checks": res,
            "caught_by": [c for c, r in res.items() if r["exit"] == 1 and r["violation"]]})
    return 0


if __name__ == "__main__":
    if sys.argv[1] == "sdetect":
        sys.exit(sdetect(sys.argv[2], sys.argv[3], sys.argv[5:] or [sys.argv[2]], sys.argv[4]))
    if sys.argv[1] == "confirm":
        sys.exit(0 if confirm(sys.argv[2], sys.argv[3]) else 1)
    elif sys.argv[1] == "detect":
        sys.exit(detect(sys.argv[2], sys.argv[3], sys.argv[4:] or [sys.argv[2]]))
