#!/bin/sh
# tools/sweep.sh <tier> <seeds...> : run every check for the given seeds (soundness sweep on the unchanged tree)
tier=$1; shift
(cd harness && cargo build --offline --release >/dev/null 2>&1 && cargo build --offline --profile plain >/dev/null 2>&1; cd ../autotraits && cargo build --offline --release >/dev/null 2>&1)
for s in "$@"; do for p in C01 C02 C03 C04 C05 C06 C07 C08 C09 C10 C11 C12 C13 C14 C15 C16 C17 C18 C19 C20; do
  VERIF_SEED=$s ./check $p --tier $tier 2>&1 | grep -E "^OK|VIOLATION|TOOL|violation|KNOWN" | sed "s/^/seed=$s /"
done; done
echo SWEEP DONE
