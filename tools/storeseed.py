#!/usr/bin/env python3
"""storeseed.py <ID> <variant> <property> <round-note>
Copies a confirmed seeded change from /tmp/seed_out/<ID>/<variant>/ to /verif/seeded/<ID>_<variant>/ and writes its
meta.json from the confirm / sdetect / detect records that tools/seedtrial.py appended to /tmp/seed_out/results.jsonl."""
import json, os, shutil, sys

OUT = "/tmp/seed_out"
pid, var, prop, note = sys.argv[1:5]
src = os.path.join(OUT, pid, var)
dst = os.path.join("/verif/seeded", "%s_%s" % (pid, var))
os.makedirs(dst, exist_ok=True)
for f in ("patch.diff", "demo.rs"):
    shutil.copy(os.path.join(src, f), os.path.join(dst, f))
agent = {}
try:
    agent = json.load(open(os.path.join(src, "meta.json")))
except Exception:
    pass
recs = [json.loads(l) for l in open(os.path.join(OUT, "results.jsonl")) if l.strip()]
recs = [r for r in recs if r.get("id") == pid and r.get("variant") == var]
conf = [r for r in recs if r["phase"] == "confirm"]
dets = [r for r in recs if r["phase"] in ("sdetect", "detect")]
runs, caught = [], []
for r in dets:
    for c, v in r["checks"].items():
        runs.append({"mode": "scratch worktree (VERIF_REPO)" if r["phase"] == "sdetect" else "/repo (git apply, ./check, git checkout)",
                     "check": c, "exit": v["exit"], "violation": bool(v["violation"]), "what": (v.get("what") or [""])[0],
                     "secs": v.get("secs")})
    for c in r.get("caught_by", []):
        if c not in caught:
            caught.append(c)
meta = {"property": prop, "variant": "%s_%s" % (pid, var), "written_by": note,
        "what": agent.get("what", ""), "needs_to_manifest": agent.get("needs", ""),
        "confirmed": ({"demo_passes_on_clean_source": conf[-1]["demo_passes_clean"], "patch_applies": conf[-1]["patch_applies"],
                       "existing_suite_with_patch": conf[-1]["suite_with_patch"],
                       "demo_fails_with_patch": conf[-1]["demo_fails_with_patch"],
                       "how": "tools/seedtrial.py confirm %s %s" % (pid, var)} if conf else None),
        "detection_runs": runs, "caught_by": caught,
        "how_run": "tools/seedtrial.py sdetect (scratch worktree) / detect (against /repo)"}
json.dump(meta, open(os.path.join(dst, "meta.json"), "w"), indent=1)
print(dst, "caught_by", caught)
