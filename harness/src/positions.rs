//! Root positions: diagrams scraped from the repository's own tests, random legal
//! positions, sparse "shuffle" positions, symmetric images.

use crate::*;

pub const COMPLEMENT: [usize; 7] = [0, 8, 2, 2, 2, 1, 1];
pub const TRAPS: [usize; 4] = [18, 21, 42, 45];

pub fn neighbours(i: usize) -> Vec<usize> {
    let mut v = Vec::with_capacity(4);
    if i >= 8 {
        v.push(i - 8);
    }
    if i % 8 != 7 {
        v.push(i + 1);
    }
    if i < 56 {
        v.push(i + 8);
    }
    if i % 8 != 0 {
        v.push(i - 1);
    }
    v
}

pub fn owner(c: u8) -> u8 {
    if c <= 6 {
        1
    } else {
        2
    }
}

pub fn has_friend(c: &[u8; 64], i: usize) -> bool {
    neighbours(i).iter().any(|&j| c[j] != 0 && owner(c[j]) == owner(c[i]))
}

pub fn trap_clean(c: &[u8; 64]) -> bool {
    TRAPS.iter().all(|&t| c[t] == 0 || has_friend(c, t))
}

pub fn legal_material(c: &[u8; 64]) -> bool {
    let mut n = [0usize; 13];
    for &v in c.iter() {
        n[v as usize] += 1;
    }
    (1..=12).all(|v| n[v] <= COMPLEMENT[if v <= 6 { v } else { v - 6 }])
}

/// a legal position in the sense of the specification's LegalPosition
pub fn legal_position(c: &[u8; 64]) -> bool {
    legal_material(c) && trap_clean(c)
}

/// parse a diagram literal the way a reader would (independent of the engine's parser):
/// returns cells, gold-to-move, move number
pub fn read_diagram(text: &str) -> Option<([u8; 64], bool, usize)> {
    let mut c = [0u8; 64];
    let mut rows = 0;
    let mut gold = true;
    let mut mn = 2usize;
    for line in text.lines() {
        let t = line.trim();
        if t.is_empty() {
            continue;
        }
        let bytes: Vec<char> = t.chars().collect();
        if bytes.len() >= 2 && bytes[0].is_ascii_digit() && bytes[1] == '|' {
            // "8| r r ... |"
            if rows >= 8 {
                return None;
            }
            let inner: Vec<char> = bytes[2..].to_vec();
            for f in 0..8 {
                let pos = 2 * f + 1;
                if pos >= inner.len() {
                    break;
                }
                let v = match inner[pos] {
                    'R' => 1,
                    'C' => 2,
                    'D' => 3,
                    'H' => 4,
                    'M' => 5,
                    'E' => 6,
                    'r' => 7,
                    'c' => 8,
                    'd' => 9,
                    'h' => 10,
                    'm' => 11,
                    'e' => 12,
                    _ => 0,
                };
                c[rows * 8 + f] = v;
            }
            rows += 1;
        } else if rows == 0 && bytes[0].is_ascii_digit() {
            let digits: String = bytes.iter().take_while(|x| x.is_ascii_digit()).collect();
            let rest: Vec<char> = bytes.iter().skip(digits.len()).cloned().collect();
            if let (Ok(n), Some(sc)) = (digits.parse::<usize>(), rest.first()) {
                if "gswb".contains(*sc) {
                    mn = n;
                    gold = *sc == 'g' || *sc == 'w';
                }
            }
        }
    }
    if rows == 8 {
        Some((c, gold, mn))
    } else {
        None
    }
}

/// all diagram literals found in the repository's test file
pub fn scrape_diagrams(path: &str) -> Vec<([u8; 64], bool, usize)> {
    let src = std::fs::read_to_string(path).unwrap_or_default();
    let mut out = Vec::new();
    for (k, seg) in src.split('"').enumerate() {
        if k % 2 == 1 && seg.contains("+-----------------+") {
            if let Some(d) = read_diagram(seg) {
                out.push(d);
            }
        }
    }
    out
}

// symmetries on cells ---------------------------------------------------------------------

pub fn mirror_sq(i: usize) -> usize {
    (i / 8) * 8 + (7 - i % 8)
}
pub fn flip_sq(i: usize) -> usize {
    (7 - i / 8) * 8 + i % 8
}
pub fn swap_cell(c: u8) -> u8 {
    if c == 0 {
        0
    } else if c <= 6 {
        c + 6
    } else {
        c - 6
    }
}
/// v: 0 identity, 1 mirror files, 2 swap colours + flip ranks, 3 both
pub fn map_cells(c: &[u8; 64], v: u8) -> [u8; 64] {
    let mut out = [0u8; 64];
    for i in 0..64 {
        let mut j = i;
        let mut x = c[i];
        if v & 1 == 1 {
            j = mirror_sq(j);
        }
        if v & 2 == 2 {
            j = flip_sq(j);
            x = swap_cell(x);
        }
        out[j] = x;
    }
    out
}
pub fn map_dir(d: Direction, v: u8) -> Direction {
    let mut d = d;
    if v & 1 == 1 {
        d = match d {
            Direction::Left => Direction::Right,
            Direction::Right => Direction::Left,
            x => x,
        };
    }
    if v & 2 == 2 {
        d = match d {
            Direction::Up => Direction::Down,
            Direction::Down => Direction::Up,
            x => x,
        };
    }
    d
}
pub fn map_action(a: &Action, v: u8) -> Action {
    match a {
        Action::Move(sq, d) => {
            let mut j = sq.index();
            if v & 1 == 1 {
                j = mirror_sq(j);
            }
            if v & 2 == 2 {
                j = flip_sq(j);
            }
            Action::Move(Square::from_index(j as u8), map_dir(*d, v))
        }
        x => *x,
    }
}

// random positions ------------------------------------------------------------------------

/// random legal position with about n pieces; rabbits kept off their goal rank with
/// probability 0.9 so that most roots are not already decided
pub fn random_position(rng: &mut Rng, n: usize) -> [u8; 64] {
    loop {
        let mut pool: Vec<u8> = Vec::new();
        for o in 0..2u8 {
            for t in 1..=6u8 {
                for _ in 0..COMPLEMENT[t as usize] {
                    pool.push(t + 6 * o);
                }
            }
        }
        rng.shuffle(&mut pool);
        let mut c = [0u8; 64];
        let avoid_goal = rng.chance(0.9);
        let mut placed = 0;
        // guarantee a rabbit each most of the time
        let want_rabbits = rng.chance(0.9);
        if want_rabbits {
            pool.retain(|&v| v != 1 && v != 7);
            pool.insert(0, 1);
            pool.insert(0, 7);
            // restore a few more rabbits at random places
            for _ in 0..rng.below(7) {
                let at = rng.below(pool.len());
                pool.insert(at, 1);
            }
            for _ in 0..rng.below(7) {
                let at = rng.below(pool.len());
                pool.insert(at, 7);
            }
        }
        for &v in pool.iter() {
            if placed >= n {
                break;
            }
            let mut tries = 0;
            loop {
                tries += 1;
                if tries > 50 {
                    break;
                }
                let i = rng.below(64);
                if c[i] != 0 {
                    continue;
                }
                if avoid_goal && ((v == 1 && i < 8) || (v == 7 && i >= 56)) {
                    continue;
                }
                c[i] = v;
                placed += 1;
                break;
            }
        }
        // repair trap squares
        for &t in TRAPS.iter() {
            if c[t] != 0 && !has_friend(&c, t) {
                c[t] = 0;
            }
        }
        if legal_position(&c) {
            return c;
        }
    }
}

/// clustered position: pieces concentrated around one or two traps (contact-rich)
pub fn clustered_position(rng: &mut Rng, n: usize) -> [u8; 64] {
    loop {
        let centre = TRAPS[rng.below(4)];
        let (cr, cf) = ((centre / 8) as i64, (centre % 8) as i64);
        let mut c = [0u8; 64];
        let mut counts = [0usize; 13];
        let mut placed = 0;
        let mut tries = 0;
        while placed < n && tries < 2000 {
            tries += 1;
            let r = cr + rng.below(7) as i64 - 3;
            let f = cf + rng.below(7) as i64 - 3;
            if !(0..8).contains(&r) || !(0..8).contains(&f) {
                continue;
            }
            let i = (r * 8 + f) as usize;
            if c[i] != 0 {
                continue;
            }
            let o = rng.below(2) as u8;
            let t = 1 + [0, 0, 0, 1, 2, 3, 4, 5, 1, 2][rng.below(10)] as u8;
            let v = t + 6 * o;
            if counts[v as usize] >= COMPLEMENT[t as usize] {
                continue;
            }
            if (v == 1 && i < 8) || (v == 7 && i >= 56) {
                continue;
            }
            c[i] = v;
            counts[v as usize] += 1;
            placed += 1;
        }
        if counts[1] == 0 {
            let i = 48 + rng.below(16);
            if c[i] == 0 {
                c[i] = 1;
            }
        }
        if counts[7] == 0 {
            let i = rng.below(16);
            if c[i] == 0 {
                c[i] = 7;
            }
        }
        for &t in TRAPS.iter() {
            if c[t] != 0 && !has_friend(&c, t) {
                c[t] = 0;
            }
        }
        if legal_position(&c) {
            return c;
        }
    }
}

/// sparse position for repetition play: each side has a rabbit on its own home rank far
/// from everything, plus one or two non-rabbit pieces
pub fn shuffle_position(rng: &mut Rng) -> [u8; 64] {
    loop {
        let mut c = [0u8; 64];
        c[56 + rng.below(8)] = 1; // gold rabbit on rank 1
        c[rng.below(8)] = 7; // silver rabbit on rank 8
        let k = 1 + rng.below(2);
        for o in 0..2u8 {
            for _ in 0..k {
                let t = 2 + rng.below(5) as u8;
                let i = 16 + rng.below(32);
                if c[i] == 0 {
                    c[i] = t + 6 * o;
                }
            }
        }
        for &t in TRAPS.iter() {
            if c[t] != 0 && !has_friend(&c, t) {
                c[t] = 0;
            }
        }
        if legal_position(&c) {
            return c;
        }
    }
}

/// a small box of squares with a few pieces of both sides in it (all of them mobile inside the
/// box, rabbits included) and one far-away rabbit per side: random play confined to the box
/// revisits positions constantly, in every way the rules allow (steps, pushes, pulls, rabbits
/// advanced and pushed back, captures when the box contains a trap)
pub fn confined_position(rng: &mut Rng) -> ([u8; 64], Vec<usize>) {
    loop {
        let (h, w) = [(2usize, 3usize), (3, 2), (2, 2), (2, 2), (1, 3), (3, 1), (1, 4), (4, 1), (1, 2), (2, 1), (3, 3)][rng.below(11)];
        let r0 = rng.below(9 - h);
        let f0 = rng.below(9 - w);
        let mut region = Vec::new();
        for r in r0..r0 + h {
            for f in f0..f0 + w {
                region.push(r * 8 + f);
            }
        }
        let mut c = [0u8; 64];
        let npieces = (2 + rng.below(3)).min(region.len() - 1).max(2);
        let mut counts = [0usize; 13];
        let mut placed = 0;
        let mut tries = 0;
        while placed < npieces && tries < 100 {
            tries += 1;
            let i = region[rng.below(region.len())];
            if c[i] != 0 {
                continue;
            }
            let o = if placed == 0 { 0 } else if placed == 1 { 1 } else { rng.below(2) as u8 };
            let t = [1u8, 1, 2, 3, 4, 5, 6, 2, 3][rng.below(9)];
            let v = t + 6 * o;
            if counts[v as usize] >= COMPLEMENT[t as usize] {
                continue;
            }
            if (v == 1 && i < 8) || (v == 7 && i >= 56) {
                continue;
            }
            c[i] = v;
            counts[v as usize] += 1;
            placed += 1;
        }
        // far-away rabbits so that no side has lost all rabbits
        for (v, lo, hi) in [(1u8, 32usize, 56usize), (7u8, 8usize, 32usize)] {
            if counts[v as usize] == 0 {
                for _ in 0..40 {
                    let i = lo + rng.below(hi - lo);
                    let near = region.iter().any(|&q| (q / 8).abs_diff(i / 8) + (q % 8).abs_diff(i % 8) <= 2);
                    if c[i] == 0 && !near && !TRAPS.contains(&i) {
                        c[i] = v;
                        break;
                    }
                }
            }
        }
        for &t in TRAPS.iter() {
            if c[t] != 0 && !has_friend(&c, t) {
                c[t] = 0;
            }
        }
        if legal_position(&c) && c.contains(&1) && c.contains(&7) {
            return (c, region);
        }
    }
}

/// the square that a missing edge mask would alias with square i (one step across the a/h edge)
pub fn wrap_partners(i: usize) -> Vec<usize> {
    let mut v = Vec::new();
    if i % 8 == 0 && i >= 1 {
        v.push(i - 1);
    }
    if i % 8 == 7 && i + 1 < 64 {
        v.push(i + 1);
    }
    v
}

fn random_piece(rng: &mut Rng) -> u8 {
    // rabbits and cats more often than the unique pieces
    let t = [1u8, 1, 2, 2, 3, 3, 4, 4, 5, 6][rng.below(10)];
    t + 6 * rng.below(2) as u8
}

/// Positions built around ONE intended first step (returned as (cells, gold_to_move, square, direction)):
/// kind 0 = a push start: an enemy piece on `sq` is displaced in `dir`;
/// kind 1 = a step of a non-rabbit piece of the mover from `sq` (a pull may follow).
/// The four neighbours of sq, their neighbours, and the squares that alias with any of them across
/// the a/h edge are filled at random (dense), so that the follow-up lists (push completions, pull
/// completions, freezing, captures on an adjacent trap) are exercised in every geometric situation,
/// corners and edges included, at high volume.
pub fn focus_position(rng: &mut Rng, kind: usize) -> Option<([u8; 64], bool, usize, Direction)> {
    let dirs = [Direction::Up, Direction::Right, Direction::Down, Direction::Left];
    // corners, the squares next to them and the other edge squares are over-represented: that is
    // where direction masks, wrap-around and goal/home-rank special cases live
    let sq = loop {
        let i = rng.below(64);
        let (r, f) = (i / 8, i % 8);
        let edge_r = r == 0 || r == 7;
        let edge_f = f == 0 || f == 7;
        let near_corner = (r <= 1 || r >= 6) && (f <= 1 || f >= 6);
        let w = if near_corner { 1.0 } else if edge_r || edge_f { 0.5 } else if TRAPS.iter().any(|&t| t == i || neighbours(t).contains(&i)) { 0.35 } else { 0.15 };
        if rng.chance(w) {
            break i;
        }
    };
    let gold = rng.chance(0.5);
    let me: u8 = if gold { 0 } else { 1 };
    let d = dirs[rng.below(4)];
    let dest = crate::drivers::dest_of(sq, d)?;
    let mut c = [0u8; 64];
    let t = if kind == 0 { 1 + rng.below(5) as u8 } else { 2 + rng.below(5) as u8 };
    c[sq] = t + 6 * (if kind == 0 { 1 - me } else { me });
    // first ring.  Equal strength is the boundary of every "strictly stronger" test, so pieces of the
    // focus piece's own type (either colour) are over-represented around it
    let same_type = |rng: &mut Rng| -> u8 { t + 6 * rng.below(2) as u8 };
    let mut involved: Vec<usize> = vec![sq, dest];
    for n in neighbours(sq) {
        if n == dest {
            continue;
        }
        involved.push(n);
        if rng.chance(0.7) {
            c[n] = if rng.chance(0.3) { same_type(rng) } else { random_piece(rng) };
        }
    }
    // make the intended first step likely to be legal: for a push, a stronger piece of the mover next
    // to the victim (it may still turn out frozen - that is part of what is being tested)
    if kind == 0 && t < 6 && rng.chance(0.85) {
        let cand: Vec<usize> = neighbours(sq).into_iter().filter(|&n| n != dest).collect();
        if !cand.is_empty() {
            let n = cand[rng.below(cand.len())];
            c[n] = t + 1 + rng.below((6 - t) as usize) as u8 + 6 * me;
        }
    }
    // for a pull lead: often put an enemy piece that is NOT weaker (same type, or stronger) next to the
    // square about to be vacated, together with a stronger piece of the mover that could push it in -
    // the displacement into the vacated square is then a push start, not a pull
    if kind == 1 && t < 6 && rng.chance(0.4) {
        let cand: Vec<usize> = neighbours(sq).into_iter().filter(|&n| n != dest).collect();
        if !cand.is_empty() {
            let n = cand[rng.below(cand.len())];
            let te = if rng.chance(0.7) { t } else { t + rng.below((6 - t) as usize) as u8 };
            c[n] = te + 6 * (1 - me);
            if te < 6 {
                let around: Vec<usize> = neighbours(n).into_iter().filter(|&m| m != sq && m != dest).collect();
                if !around.is_empty() {
                    let m = around[rng.below(around.len())];
                    c[m] = te + 1 + rng.below((6 - te) as usize) as u8 + 6 * me;
                }
            }
        }
    }
    // second ring: neighbours of the first ring and of the destination
    let ring1: Vec<usize> = involved.clone();
    for &n in ring1.iter() {
        for m in neighbours(n) {
            if !involved.contains(&m) {
                involved.push(m);
                if rng.chance(0.45) {
                    c[m] = if rng.chance(0.2) { same_type(rng) } else { random_piece(rng) };
                }
            }
        }
    }
    // squares aliasing with any involved square across the board edge
    let inv2 = involved.clone();
    for &n in inv2.iter() {
        for w in wrap_partners(n) {
            if !involved.contains(&w) && c[w] == 0 && rng.chance(0.6) {
                c[w] = random_piece(rng);
            }
        }
    }
    c[dest] = 0;
    // complement and goal-rank repairs
    let mut counts = [0usize; 13];
    for i in 0..64 {
        let v = c[i];
        if v == 0 {
            continue;
        }
        let ty = if v <= 6 { v } else { v - 6 };
        if counts[v as usize] >= COMPLEMENT[ty as usize] || (v == 1 && i < 8) || (v == 7 && i >= 56) {
            if i == sq {
                return None;
            }
            c[i] = 0;
        } else {
            counts[v as usize] += 1;
        }
    }
    for (v, lo, hi) in [(1u8, 24usize, 56usize), (7u8, 8usize, 40usize)] {
        if counts[v as usize] == 0 {
            for _ in 0..30 {
                let i = lo + rng.below(hi - lo);
                if c[i] == 0 && !involved.contains(&i) && !TRAPS.contains(&i) {
                    c[i] = v;
                    break;
                }
            }
        }
    }
    for &tq in TRAPS.iter() {
        if c[tq] != 0 && !has_friend(&c, tq) {
            if tq == sq {
                return None;
            }
            c[tq] = 0;
        }
    }
    if !legal_position(&c) || !c.contains(&1) || !c.contains(&7) {
        return None;
    }
    Some((c, gold, sq, d))
}

/// "wrap" family: a piece Y of the mover on an a- or h-file square whose freezing is decided by a single
/// real neighbour, and a piece across the board edge on the square that a missing file mask would treat
/// as Y's neighbour.  Y stands next to an enemy piece that the mover can push (by another piece), so that
/// Y appears as a candidate in the start-of-turn lists AND in the list of push completions.
/// Returns (cells, gold_to_move, victim square, direction of the push start).
pub fn wrap_position(rng: &mut Rng) -> Option<([u8; 64], bool, usize, Direction)> {
    let dirs = [Direction::Up, Direction::Right, Direction::Down, Direction::Left];
    let gold = rng.chance(0.5);
    let me: u8 = if gold { 0 } else { 1 };
    // y on file a or h, x = the square aliasing with it across the edge
    let y = rng.below(8) * 8 + if rng.chance(0.5) { 0 } else { 7 };
    let xs = wrap_partners(y);
    if xs.is_empty() {
        return None;
    }
    let x = xs[0];
    let mut c = [0u8; 64];
    let ty = 2 + rng.below(4) as u8; // cat..camel, so that something stronger and something weaker exist
    c[y] = ty + 6 * me;
    let ns = neighbours(y);
    if ns.len() < 2 {
        return None;
    }
    // the victim (weaker than Y) on one real neighbour, a freezer or nothing on another
    let s = ns[rng.below(ns.len())];
    let tv = 1 + rng.below((ty - 1) as usize) as u8;
    c[s] = tv + 6 * (1 - me);
    let frozen_case = rng.chance(0.6);
    let others: Vec<usize> = ns.iter().cloned().filter(|&n| n != s).collect();
    if frozen_case {
        let f = others[rng.below(others.len())];
        c[f] = ty + 1 + rng.below((6 - ty) as usize) as u8 + 6 * (1 - me); // stronger enemy: Y is frozen
        // across the edge: a FRIEND (a wrap bug would unfreeze Y)
        c[x] = random_piece(rng) % 6 + 1 + 6 * me;
    } else {
        // Y is free; across the edge: a stronger ENEMY (a wrap bug would freeze Y)
        c[x] = ty + 1 + rng.below((6 - ty) as usize) as u8 + 6 * (1 - me);
    }
    // another pusher next to the victim, and an empty square for the victim to go to
    let sn: Vec<usize> = neighbours(s).into_iter().filter(|&n| n != y && c[n] == 0).collect();
    if sn.len() < 2 {
        return None;
    }
    let pidx = rng.below(sn.len());
    let p = sn[pidx];
    c[p] = tv + 1 + rng.below((6 - tv) as usize) as u8 + 6 * me;
    let dests: Vec<usize> = sn.iter().cloned().filter(|&n| n != p).collect();
    let dest = dests[rng.below(dests.len())];
    let d = *dirs.iter().find(|&&dd| crate::drivers::dest_of(s, dd) == Some(dest))?;
    // a little noise around
    for _ in 0..rng.below(4) {
        let i = rng.below(64);
        if c[i] == 0 && i != dest {
            c[i] = random_piece(rng);
        }
    }
    // repairs: complement, goal ranks, traps, rabbits for both
    let mut counts = [0usize; 13];
    for i in 0..64 {
        let v = c[i];
        if v == 0 {
            continue;
        }
        let t = if v <= 6 { v } else { v - 6 };
        if counts[v as usize] >= COMPLEMENT[t as usize] || (v == 1 && i < 8) || (v == 7 && i >= 56) {
            if i == y || i == s || i == p || i == x {
                return None;
            }
            c[i] = 0;
        } else {
            counts[v as usize] += 1;
        }
    }
    for (v, lo, hi) in [(1u8, 24usize, 56usize), (7u8, 8usize, 40usize)] {
        if counts[v as usize] == 0 {
            for _ in 0..30 {
                let i = lo + rng.below(hi - lo);
                let near = [y, s, p, x, dest].iter().any(|&q| (q / 8).abs_diff(i / 8) + (q % 8).abs_diff(i % 8) <= 1);
                if c[i] == 0 && !near && !TRAPS.contains(&i) {
                    c[i] = v;
                    break;
                }
            }
        }
    }
    for &tq in TRAPS.iter() {
        if c[tq] != 0 && !has_friend(&c, tq) {
            if [y, s, p, x].contains(&tq) {
                return None;
            }
            c[tq] = 0;
        }
    }
    if !legal_position(&c) || !c.contains(&1) || !c.contains(&7) {
        return None;
    }
    Some((c, gold, s, d))
}

/// A position as the PARSER accepts it but play never produces it: legal material, but one or two
/// pieces standing on trap squares without a friendly neighbour.  C02 and C10 say what must happen:
/// the first action applied removes every such piece (of either colour, on any trap).
pub fn unclean_position(rng: &mut Rng) -> Option<[u8; 64]> {
    let n = 4 + rng.below(20);
    let mut c = if rng.chance(0.5) { random_position(rng, n) } else { clustered_position(rng, 4 + n / 2) };
    let mut counts = [0usize; 13];
    for &v in c.iter() {
        counts[v as usize] += 1;
    }
    let mut added = 0;
    let want = 1 + rng.below(2);
    let mut traps: Vec<usize> = TRAPS.to_vec();
    rng.shuffle(&mut traps);
    for &t in traps.iter() {
        if added >= want || c[t] != 0 {
            continue;
        }
        for _ in 0..6 {
            let ty = 1 + rng.below(6) as u8;
            let v = ty + 6 * rng.below(2) as u8;
            if counts[v as usize] >= COMPLEMENT[ty as usize] {
                continue;
            }
            c[t] = v;
            if has_friend(&c, t) {
                c[t] = 0;
                continue;
            }
            counts[v as usize] += 1;
            added += 1;
            break;
        }
    }
    if added == 0 || !legal_material(&c) {
        return None;
    }
    Some(c)
}

/// C04: every combination of the five win conditions that can be realised with a few pieces.
pub fn results_family() -> Vec<([u8; 64], bool)> {
    let mut out = Vec::new();
    for gold_to_move in [true, false] {
        for ga in 0..9usize {
            // ga < 8: a Gold rabbit on rank 8, file ga
            for sa in 0..9usize {
                for other in 0..4usize {
                    // other bit 0: Gold has another rabbit (at home); bit 1: Silver has one
                    let mut c = [0u8; 64];
                    c[49] = 6; // Eb2
                    c[14] = 12; // eg7
                    if ga < 8 {
                        c[ga] = 1;
                    }
                    if sa < 8 {
                        c[56 + sa] = 7;
                    }
                    if other & 1 == 1 {
                        c[48] = 1; // Ra2
                    }
                    if other & 2 == 2 {
                        c[15] = 7; // rh7
                    }
                    out.push((c, gold_to_move));
                    // the same combination of conditions inside full armies: all officers of both sides on
                    // the board, and a side that has any rabbit has all eight (so that piece counts such
                    // as 32, 24 and 16 occur together with every verdict)
                    let mut d = c;
                    let gold_off = [(50usize, 2u8), (51, 2), (52, 3), (53, 3), (54, 4), (55, 4), (58, 5)];
                    let silv_off = [(9usize, 8u8), (10, 8), (11, 9), (12, 9), (13, 10), (17, 10), (5, 11)];
                    for (i, v) in gold_off.iter().chain(silv_off.iter()) {
                        if d[*i] == 0 {
                            d[*i] = *v;
                        }
                    }
                    for (v, lo, hi) in [(1u8, 32usize, 48usize), (7u8, 16usize, 32usize)] {
                        let have = d.iter().filter(|&&x| x == v).count();
                        let has_any = have > 0;
                        if has_any {
                            let mut need = 8 - have;
                            for i in lo..hi {
                                if need == 0 {
                                    break;
                                }
                                if d[i] == 0 && !TRAPS.contains(&i) {
                                    d[i] = v;
                                    need -= 1;
                                }
                            }
                        }
                    }
                    out.push((d, gold_to_move));
                }
            }
        }
        // the mover cannot move: a lone rabbit frozen in the corner (and blocked), with the opponent
        // having rabbits or not, and with/without an opponent rabbit on its goal
        for opp_rabbits in [false, true] {
            for opp_goal in [false, true] {
                let mut c = [0u8; 64];
                if gold_to_move {
                    c[56] = 1; // Ra1
                    c[48] = 9; // da2 freezes it, and blocks the way north
                    c[57] = 8; // cb1 blocks the way east
                    if opp_rabbits {
                        c[8] = 7;
                    }
                    if opp_goal {
                        c[63] = 7;
                    }
                } else {
                    c[0] = 7; // ra8
                    c[8] = 3; // Da7
                    c[1] = 2; // Cb8
                    if opp_rabbits {
                        c[55] = 1;
                    }
                    if opp_goal {
                        c[7] = 1;
                    }
                }
                out.push((c, gold_to_move));
            }
        }
        // more ways of having no legal step at the start of a turn (each with and without rabbits of the
        // side that just moved, because elimination of that side comes first in the official order):
        for opp_rabbits in [false, true] {
            // (i) the only free square next to the mover's rabbit is BEHIND it
            let mut c = [0u8; 64];
            if gold_to_move {
                c[35] = 1; // Rd4
                c[27] = 9; // dd5 in front (does not freeze... a dog freezes a rabbit: so add a friend)
                c[34] = 4; // Hc4 friend on the left: not frozen, and itself blocked below
                c[36] = 10; // he4 on the right
                c[26] = 12; // ec5 above the horse: freezes? no - the horse has a friend (the rabbit)
                c[33] = 8; // cb4 left of the horse
                c[42] = 7; // rc3 below the horse (a trap square, supported by nothing -> repaired below)
            } else {
                c[27] = 7; // rd5
                c[35] = 3; // Dd4 in front of it
                c[26] = 10; // hc5 friend
                c[28] = 4; // He5
                c[34] = 6; // Ec4
                c[25] = 2; // Cb5
                c[18] = 1; // Rc6 (trap square)
            }
            if opp_rabbits {
                if gold_to_move { c[8] = 7; } else { c[55] = 1; }
            }
            for &t in TRAPS.iter() {
                if c[t] != 0 && !has_friend(&c, t) {
                    c[t] = 0;
                }
            }
            out.push((c, gold_to_move));
            // (ii) a strong piece hemmed in by weaker enemy pieces that cannot be pushed anywhere
            let mut c = [0u8; 64];
            if gold_to_move {
                c[56] = 6; // Ea1
                c[57] = 1; // Rb1
                c[48] = 7; // ra2
                c[49] = 9; // db2
                c[58] = 8; // cc1
                c[40] = 10; // ha3 (behind the rabbit: a2 cannot be pushed north)
                c[41] = 7; // rb3
                c[50] = 7; // rc2
                c[59] = 10; // hd1
            } else {
                c[0] = 12; // ea8
                c[1] = 7; // rb8
                c[8] = 1; // Ra7
                c[9] = 3; // Db7
                c[2] = 2; // Cc8
                c[16] = 4; // Ha6
                c[17] = 1; // Rb6
                c[10] = 1; // Rc7
                c[3] = 4; // Hd8
            }
            if !opp_rabbits {
                for v in c.iter_mut() {
                    if (gold_to_move && *v == 7) || (!gold_to_move && *v == 1) {
                        *v = if gold_to_move { 8 } else { 2 };
                    }
                }
                // cats instead of rabbits: recount the complement below
            }
            out.push((c, gold_to_move));
            // (iii) every piece of the mover is frozen
            let mut c = [0u8; 64];
            if gold_to_move {
                c[35] = 2; // Cd4 frozen by
                c[27] = 9; // dd5
                c[60] = 1; // Re1 frozen by
                c[61] = 8; // cf1
            } else {
                c[27] = 8; // cd5
                c[35] = 3; // Dd4
                c[4] = 7; // re8
                c[5] = 2; // Cf8
            }
            if opp_rabbits {
                if gold_to_move { c[8] = 7; } else { c[55] = 1; }
            }
            out.push((c, gold_to_move));
        }
    }
    out.retain(|(c, _)| legal_position(c));
    out
}

/// parse a position given as cells through the engine's own parser
pub fn state_from_cells(c: &[u8; 64], gold: bool, mn: usize) -> Result<GameState, String> {
    state_from_cells_styled(c, gold, mn, 0)
}

/// style 0: header "<n>g" / "<n>s"; 1: the alternative side letters "<n>w" / "<n>b";
/// 2: no header at all (only meaningful for Gold to move at move 2, the parser's default)
pub fn state_from_cells_styled(c: &[u8; 64], gold: bool, mn: usize, style: u8) -> Result<GameState, String> {
    let mut txt = diagram_of_cells(c, gold, mn);
    if style == 1 {
        let head_end = txt.find('\n').unwrap();
        let head = txt[..head_end].replace('g', "w").replace('s', "b");
        txt = format!("{}{}", head, &txt[head_end..]);
    } else if style == 2 && gold && mn == 2 {
        let head_end = txt.find('\n').unwrap();
        txt = txt[head_end..].to_string();
    }
    stage("from_str");
    let r = guarded(|| txt.parse::<GameState>());
    stage("");
    match r {
        Ok(Ok(gs)) => Ok(gs),
        Ok(Err(e)) => Err(format!("from_str: error {}", e)),
        Err(p) => Err(p),
    }
}

// ---------------------------------------------------------------------------------------
// The situation grid: one root per (rule clause, square, direction, colour), enumerated - not
// sampled.  Every clause of the rules that talks about a neighbourhood (who may push, who may
// complete a push, what may be pulled, who is frozen / supported) is realised around EVERY square
// of the board, with the deciding pieces on every combination of neighbour squares, so that a
// fault confined to one square, one file, one direction or one colour cannot hide behind the
// sampling of the random drivers.  The specification judges what the engine does there; this
// only supplies reach.

fn mine(t: u8, me: u8) -> u8 {
    t + 6 * me
}

fn count_of(c: &[u8; 64], v: u8) -> usize {
    c.iter().filter(|&&x| x == v).count()
}

/// a piece of colour `me` taken from `prefs` (types) whose complement is not yet exhausted and which,
/// if a rabbit, does not stand on its goal rank
fn put_some(c: &mut [u8; 64], i: usize, me: u8, prefs: &[u8]) -> bool {
    for &t in prefs {
        let v = mine(t, me);
        if count_of(c, v) >= COMPLEMENT[t as usize] {
            continue;
        }
        if t == 1 && ((me == 0 && i < 8) || (me == 1 && i >= 56)) {
            continue;
        }
        c[i] = v;
        return true;
    }
    false
}

fn far_rabbits(c: &mut [u8; 64], involved: &[usize]) -> bool {
    for (v, order) in [(1u8, [49usize, 54, 51, 52, 41, 46, 33, 38, 25, 30, 50, 53]), (7u8, [9usize, 14, 11, 12, 17, 22, 25, 30, 33, 38, 10, 13])] {
        if c.contains(&v) {
            continue;
        }
        let mut done = false;
        for &i in order.iter() {
            let far = involved.iter().all(|&j| (i / 8).abs_diff(j / 8) + (i % 8).abs_diff(j % 8) >= 2);
            if c[i] == 0 && far && !TRAPS.contains(&i) {
                c[i] = v;
                done = true;
                break;
            }
        }
        if !done {
            return false;
        }
    }
    true
}

pub type GridItem = ([u8; 64], bool, usize, Direction);

fn grid_emit(out: &mut Vec<GridItem>, c: &[u8; 64], involved: &[usize], gold: bool, sq: usize, d: Direction) {
    let mut c = *c;
    if !far_rabbits(&mut c, involved) {
        return;
    }
    if (0..8).any(|i| c[i] == 1) || (56..64).any(|i| c[i] == 7) {
        return;
    }
    // a piece of the situation standing on a trap gets a friend beside it (outside the situation's squares)
    for &t in TRAPS.iter() {
        if c[t] != 0 && !has_friend(&c, t) {
            let me = if c[t] <= 6 { 0 } else { 1 };
            let free: Vec<usize> = neighbours(t).into_iter().filter(|n| c[*n] == 0 && !involved.contains(n)).collect();
            if free.is_empty() || !put_some(&mut c, free[0], me, &[2, 3, 4, 1]) {
                return;
            }
        }
    }
    if legal_position(&c) {
        out.push((c, gold, sq, d));
    }
}

/// the status variants of a piece of the mover on `at`: as it stands; frozen by an enemy elephant on
/// each free neighbour; frozen and supported by a friend on one further neighbour
fn grid_status_variants(out: &mut Vec<GridItem>, c: &[u8; 64], at: usize, me: u8, taken: &[usize], gold: bool, sq: usize, d: Direction) {
    let mut inv: Vec<usize> = taken.to_vec();
    grid_emit(out, c, &inv, gold, sq, d);
    for f in neighbours(at) {
        if taken.contains(&f) || c[f] != 0 {
            continue;
        }
        let mut c1 = *c;
        c1[f] = mine(6, 1 - me);
        inv.push(f);
        grid_emit(out, &c1, &inv, gold, sq, d);
        if let Some(g) = neighbours(at).into_iter().find(|g| !taken.contains(g) && *g != f && c1[*g] == 0) {
            let mut c2 = c1;
            if put_some(&mut c2, g, me, &[2, 3, 1, 4]) {
                inv.push(g);
                grid_emit(out, &c2, &inv, gold, sq, d);
                inv.pop();
            }
        }
        inv.pop();
    }
}

fn dir_between(from: usize, to: usize) -> Direction {
    if to + 8 == from {
        Direction::Up
    } else if to == from + 1 {
        Direction::Right
    } else if to == from + 8 {
        Direction::Down
    } else {
        Direction::Left
    }
}

/// The capture clauses around every trap: (kind 3) first steps that displace an enemy piece - the single
/// supporter of a trap piece pushed away in every direction, a victim pushed onto the trap with and without a
/// friend beside it; (kind 4) first steps of the mover's own pieces - the single supporter walks away, a piece
/// walks onto the trap alone / next to a friend, a piece steps off the trap or away from a supporter so that
/// the enemy piece it drags behind it arrives on the trap or leaves a trap piece alone.
fn grid_traps(out3: &mut Vec<GridItem>, out4: &mut Vec<GridItem>, rot: usize) {
    let dirs = [Direction::Up, Direction::Right, Direction::Down, Direction::Left];
    for me in 0..2u8 {
        let gold = me == 0;
        let en = 1 - me;
        for (ti, &t) in TRAPS.iter().enumerate() {
            for (ni, n) in neighbours(t).into_iter().enumerate() {
                for v in 0..3usize {
                    let k = ti + ni + v + rot;
                    let tx = 1 + (k % 5) as u8; // piece on the trap (1..5)
                    let tf = 1 + ((k / 2) % 4) as u8; // its supporter (1..4)
                    // (a) the mover's piece on the trap, its only friend walks away (or not the only one)
                    for &d in dirs.iter() {
                        if let Some(dest) = crate::drivers::dest_of(n, d) {
                            if dest == t {
                                continue;
                            }
                            let mut c = [0u8; 64];
                            c[t] = mine(tx, me);
                            if !put_some(&mut c, n, me, &[tf + 1, tf]) {
                                continue;
                            }
                            grid_emit(out4, &c, &[t, n, dest], gold, n, d);
                            if let Some(n2) = neighbours(t).into_iter().find(|&q| q != n && q != dest) {
                                let mut c2 = c;
                                if put_some(&mut c2, n2, me, &[2, 3, 1]) {
                                    grid_emit(out4, &c2, &[t, n, dest, n2], gold, n, d);
                                }
                            }
                        }
                    }
                    // (b) a piece of the mover walks onto the empty trap: alone, or with a friend beside the trap
                    {
                        let mut c = [0u8; 64];
                        if put_some(&mut c, n, me, &[tx]) {
                            let d = dir_between(n, t);
                            grid_emit(out4, &c, &[t, n], gold, n, d);
                            for n2 in neighbours(t) {
                                if n2 != n {
                                    let mut c2 = c;
                                    if put_some(&mut c2, n2, me, &[2, 3, 1]) {
                                        grid_emit(out4, &c2, &[t, n, n2], gold, n, d);
                                    }
                                }
                            }
                        }
                    }
                    // (c) an enemy piece on the trap whose only supporter (on n) is pushed away in every direction,
                    //     or dragged away behind a piece of the mover that steps off in every direction
                    for m in neighbours(n) {
                        if m == t {
                            continue;
                        }
                        let mut c = [0u8; 64];
                        c[t] = mine(tx, en);
                        c[n] = mine(tf, en);
                        if !put_some(&mut c, m, me, &[tf + 1, tf + 2]) {
                            continue;
                        }
                        for &d in dirs.iter() {
                            if let Some(dest) = crate::drivers::dest_of(n, d) {
                                if dest != t && dest != m {
                                    grid_emit(out3, &c, &[t, n, m, dest], gold, n, d);
                                }
                            }
                            if let Some(dest) = crate::drivers::dest_of(m, d) {
                                if dest != n && dest != t {
                                    grid_emit(out4, &c, &[t, n, m, dest], gold, m, d);
                                }
                            }
                        }
                    }
                    // (d) an enemy piece on n pushed onto the empty trap: alone, or with a friend of its own beside the trap
                    for m in neighbours(n) {
                        if m == t {
                            continue;
                        }
                        let mut c = [0u8; 64];
                        c[n] = mine(tf, en);
                        if !put_some(&mut c, m, me, &[tf + 1, tf + 2]) {
                            continue;
                        }
                        let d = dir_between(n, t);
                        grid_emit(out3, &c, &[t, n, m], gold, n, d);
                        for n2 in neighbours(t) {
                            if n2 != n && n2 != m {
                                let mut c2 = c;
                                if put_some(&mut c2, n2, en, &[2, 1, 3]) {
                                    grid_emit(out3, &c2, &[t, n, m, n2], gold, n, d);
                                }
                            }
                        }
                    }
                    // (e) a piece of the mover stands on the trap (held by a friend) next to a weaker enemy piece on n and
                    //     steps off: the enemy piece can be pulled onto the trap
                    for g in neighbours(t) {
                        if g == n {
                            continue;
                        }
                        let mut c = [0u8; 64];
                        c[t] = mine(tf + 1, me);
                        c[n] = mine(tf, en);
                        if !put_some(&mut c, g, me, &[2, 3, 1]) {
                            continue;
                        }
                        for &d in dirs.iter() {
                            if let Some(dest) = crate::drivers::dest_of(t, d) {
                                if dest != n && dest != g {
                                    grid_emit(out4, &c, &[t, n, g, dest], gold, t, d);
                                    // ... and with a friend of the victim beside the trap
                                    let mut c2 = c;
                                    if let Some(q) = neighbours(n).into_iter().find(|&q| q != t && c2[q] == 0 && q != dest) {
                                        if put_some(&mut c2, q, en, &[2, 1]) {
                                            grid_emit(out4, &c2, &[t, n, g, dest, q], gold, t, d);
                                        }
                                    }
                                }
                            }
                        }
                    }
                }
            }
        }
    }
}

/// kind 0: push starts and their completions; kind 1: pull leads; kind 2: own steps (root lists only);
/// kind 3 / 4: the capture clauses around every trap (first step displaces an enemy piece / is an own step).
/// `rot` varies the piece types between runs.
pub fn grid_positions(kind: usize, rot: usize) -> Vec<GridItem> {
    let dirs = [Direction::Up, Direction::Right, Direction::Down, Direction::Left];
    let mut out: Vec<GridItem> = Vec::new();
    if kind >= 3 {
        let mut o3 = Vec::new();
        let mut o4 = Vec::new();
        grid_traps(&mut o3, &mut o4, rot);
        return if kind == 3 { o3 } else { o4 };
    }
    for me in 0..2u8 {
        let gold = me == 0;
        for s in 0..64usize {
            for (di, &d) in dirs.iter().enumerate() {
                let dest = match crate::drivers::dest_of(s, d) {
                    Some(x) => x,
                    None => continue,
                };
                let nbrs: Vec<usize> = neighbours(s).into_iter().filter(|&n| n != dest).collect();
                match kind {
                    0 => {
                        // the victim's type rotates with the square; the pusher is one step stronger
                        let tv = 1 + ((s + di + rot) % 3) as u8;
                        for &n1 in nbrs.iter() {
                            let mut c = [0u8; 64];
                            c[s] = mine(tv, 1 - me);
                            c[n1] = mine(tv + 1, me);
                            // the pusher alone, in every status
                            grid_status_variants(&mut out, &c, n1, me, &[s, dest, n1], gold, s, d);
                            // a second piece of the mover next to the victim: stronger, equal, weaker, in every status
                            for &n2 in nbrs.iter() {
                                if n2 == n1 {
                                    continue;
                                }
                                for rel in 0..3 {
                                    let t2 = match rel {
                                        0 => tv + 1 + ((s + rot) % 2) as u8,
                                        1 => tv,
                                        _ => tv - 1,
                                    };
                                    if t2 == 0 {
                                        continue;
                                    }
                                    let mut c2 = c;
                                    if !put_some(&mut c2, n2, me, &[t2]) {
                                        continue;
                                    }
                                    grid_status_variants(&mut out, &c2, n2, me, &[s, dest, n1, n2], gold, s, d);
                                }
                            }
                        }
                    }
                    1 => {
                        // a non-rabbit piece of the mover on s steps to dest; an enemy piece on a neighbour of s
                        // that is weaker / equal / stronger; the mover's piece alone or supported
                        let tp = 2 + ((s + di + rot) % 4) as u8;
                        for &n in nbrs.iter() {
                            for rel in 0..3 {
                                let te = match rel {
                                    0 => 1 + ((s + rot) % (tp as usize - 1)) as u8,
                                    1 => tp,
                                    _ => tp + 1,
                                };
                                let mut c = [0u8; 64];
                                c[s] = mine(tp, me);
                                c[n] = mine(te, 1 - me);
                                grid_emit(&mut out, &c, &[s, dest, n], gold, s, d);
                                // supported by a friend on another neighbour (matters when the enemy is stronger)
                                for &g in nbrs.iter() {
                                    if g == n {
                                        continue;
                                    }
                                    let mut c1 = c;
                                    if put_some(&mut c1, g, me, &[2, 3, 1]) {
                                        grid_emit(&mut out, &c1, &[s, dest, n, g], gold, s, d);
                                    }
                                    // a second enemy candidate for the pull
                                    let mut c2 = c;
                                    if put_some(&mut c2, g, 1 - me, &[1, 2]) {
                                        grid_emit(&mut out, &c2, &[s, dest, n, g], gold, s, d);
                                    }
                                }
                            }
                        }
                    }
                    _ => {
                        // own steps: a rabbit and a non-rabbit piece on s, in every status, and next to an enemy
                        // piece of its own type
                        for t in [1u8, 2 + ((s + di + rot) % 4) as u8] {
                            let mut c = [0u8; 64];
                            if !put_some(&mut c, s, me, &[t]) {
                                continue;
                            }
                            grid_status_variants(&mut out, &c, s, me, &[s, dest], gold, s, d);
                            for &n in nbrs.iter() {
                                let mut c1 = c;
                                c1[n] = mine(t, 1 - me);
                                grid_emit(&mut out, &c1, &[s, dest, n], gold, s, d);
                            }
                        }
                    }
                }
            }
        }
    }
    out
}

// ---------------------------------------------------------------------------------------
// Extremal positions: legal positions pushed by local search towards the LARGEST quantities a
// list-building routine has to cope with - the number of actions of the mover, the number of its
// own steps, the number of enemy pieces it can push in one direction, the number of different
// pieces that can push.  Sizes that random play practically never reaches (it peaks near 50
// actions; the maximum is above 100) are where capacity assumptions live.

fn strength(v: u8) -> u8 {
    if v == 0 { 0 } else if v <= 6 { v } else { v - 6 }
}

fn frozen_here(c: &[u8; 64], i: usize) -> bool {
    let o = owner(c[i]);
    let nb = neighbours(i);
    nb.iter().any(|&j| c[j] != 0 && owner(c[j]) != o && strength(c[j]) > strength(c[i])) && !nb.iter().any(|&j| c[j] != 0 && owner(c[j]) == o)
}

/// (own steps, pushes per direction [n, e, s, w], number of pushers) of the side `gold`; a cheap estimate used
/// only to steer the search (the specification, not this, judges the engine)
fn width(c: &[u8; 64], gold: bool) -> (usize, [usize; 4], usize) {
    let me = if gold { 1 } else { 2 };
    let mut own = 0;
    let mut push = [0usize; 4];
    let mut pushers = 0;
    for i in 0..64 {
        if c[i] == 0 {
            continue;
        }
        if owner(c[i]) == me {
            if frozen_here(c, i) {
                continue;
            }
            let nb = neighbours(i);
            for &j in nb.iter() {
                if c[j] == 0 {
                    let backward = (c[i] == 1 && j == i + 8) || (c[i] == 7 && j + 8 == i);
                    if !backward {
                        own += 1;
                    }
                }
            }
            if nb.iter().any(|&j| c[j] != 0 && owner(c[j]) != me && strength(c[j]) < strength(c[i])) {
                pushers += 1;
            }
        } else {
            let pushable = neighbours(i).iter().any(|&j| c[j] != 0 && owner(c[j]) == me && strength(c[j]) > strength(c[i]) && !frozen_here(c, j));
            if pushable {
                let (r, f) = (i / 8, i % 8);
                if r > 0 && c[i - 8] == 0 { push[0] += 1; }
                if f < 7 && c[i + 1] == 0 { push[1] += 1; }
                if r < 7 && c[i + 8] == 0 { push[2] += 1; }
                if f > 0 && c[i - 1] == 0 { push[3] += 1; }
            }
        }
    }
    (own, push, pushers)
}

fn wide_ok(c: &[u8; 64]) -> bool {
    legal_position(c) && !(0..8).any(|i| c[i] == 1) && !(56..64).any(|i| c[i] == 7) && c.contains(&1) && c.contains(&7)
}

/// objective 0: all actions; 1: own steps; 2..5: pushes in one direction (n, e, s, w); 6: number of pushers
pub fn wide_position(rng: &mut Rng, objective: usize, gold: bool) -> [u8; 64] {
    let score = |c: &[u8; 64]| -> usize {
        let (own, push, pushers) = width(c, gold);
        match objective {
            0 => own + push.iter().sum::<usize>(),
            1 => own,
            2..=5 => 8 * push[objective - 2] + own / 4,
            _ => 8 * pushers + own / 4,
        }
    };
    // start: the mover's whole army and a random part of the other one, scattered
    let mut c = [0u8; 64];
    let mut pieces: Vec<u8> = Vec::new();
    let (m, e) = if gold { (0u8, 6u8) } else { (6u8, 0u8) };
    for t in 1..=6u8 {
        for _ in 0..COMPLEMENT[t as usize] {
            pieces.push(t + m);
        }
    }
    let enemy_n = if objective == 1 { rng.below(5) } else { 6 + rng.below(11) };
    let mut en: Vec<u8> = Vec::new();
    for t in 1..=6u8 {
        for _ in 0..COMPLEMENT[t as usize] {
            en.push(t + e);
        }
    }
    // weak enemy pieces first (they are the pushable ones), one rabbit guaranteed
    for k in 0..enemy_n.min(en.len()) {
        pieces.push(en[k]);
    }
    for &v in pieces.iter() {
        for _ in 0..200 {
            let i = rng.below(64);
            if c[i] == 0 && !TRAPS.contains(&i) && !((v == 1 && i < 8) || (v == 7 && i >= 56)) {
                c[i] = v;
                break;
            }
        }
    }
    if !wide_ok(&c) {
        return c;
    }
    let mut cur = score(&c);
    let mut best = cur;
    let mut best_c = c;
    let iterations = if objective == 0 { 6000 } else { 400 + rng.below(600) };
    for k in 0..iterations {
        // annealing: the tolerance for a worse neighbour shrinks from 2 to 0.05
        let temp = 2.0 * (0.025f64).powf(k as f64 / iterations as f64);
        let occupied: Vec<usize> = (0..64).filter(|&i| c[i] != 0).collect();
        let from = occupied[rng.below(occupied.len())];
        let to = rng.below(64);
        if c[to] != 0 {
            continue;
        }
        let mut d = c;
        d[to] = d[from];
        d[from] = 0;
        if !wide_ok(&d) {
            continue;
        }
        let s = score(&d);
        if s >= cur || rng.chance(((s as f64 - cur as f64) / temp).exp()) {
            c = d;
            cur = s;
            if cur > best {
                best = cur;
                best_c = c;
            }
        }
    }
    best_c
}

// ---------------------------------------------------------------------------------------
// Positions assembled rank by rank (and file by file) from a catalogue of regular patterns - full
// ranks of one piece type in one or both colours, ranks of one colour, alternating patterns,
// single pieces, empty ranks.  Printing, parsing and every bitboard routine that treats a whole
// rank or file at once meets its special cases here; random positions practically never contain
// a completely regular rank.
pub fn rows_position(rng: &mut Rng) -> [u8; 64] {
    let mut c = [0u8; 64];
    let mut left = [[0usize; 7]; 2]; // pieces still available per colour and type
    for o in 0..2 {
        for t in 1..=6 {
            left[o][t] = COMPLEMENT[t];
        }
    }
    let by_file = rng.chance(0.25);
    let at = |line: usize, k: usize| -> usize { if by_file { k * 8 + line } else { line * 8 + k } };
    let mut take = |c: &mut [u8; 64], i: usize, o: usize, t: usize, left: &mut [[usize; 7]; 2]| -> bool {
        // rabbits never on their goal rank; traps are filled only when a friend is already beside them
        if left[o][t] == 0 || (t == 1 && ((o == 0 && i < 8) || (o == 1 && i >= 56))) || TRAPS.contains(&i) {
            return false;
        }
        left[o][t] -= 1;
        c[i] = (t + 6 * o) as u8;
        true
    };
    let mut lines: Vec<usize> = (0..8).collect();
    // random order, so that the scarce pieces (eight rabbits a side) go to different lines in different positions
    for k in (1..8).rev() {
        lines.swap(k, rng.below(k + 1));
    }
    for &line in lines.iter() {
        match rng.below(9) {
            0 | 1 => {} // empty
            2 => {
                // a full line of rabbits, colours by a random mask (all gold, all silver and every mixture)
                let mask = match rng.below(4) {
                    0 => 0xFF,
                    1 => 0x00,
                    2 => 1 << rng.below(8),
                    _ => rng.below(256),
                };
                for k in 0..8 {
                    let o = if (mask >> k) & 1 == 1 { 0 } else { 1 };
                    if !take(&mut c, at(line, k), o, 1, &mut left) {
                        take(&mut c, at(line, k), 1 - o, 1, &mut left);
                    }
                }
            }
            3 => {
                // the officers of one colour, shuffled
                let o = rng.below(2);
                let mut ts = [6usize, 5, 4, 4, 3, 3, 2, 2];
                for k in (1..8).rev() {
                    ts.swap(k, rng.below(k + 1));
                }
                for k in 0..8 {
                    take(&mut c, at(line, k), o, ts[k], &mut left);
                }
            }
            4 => {
                // one piece type, both colours, as many as there are
                let t = 2 + rng.below(3);
                for k in 0..8 {
                    if rng.chance(0.7) {
                        let o = rng.below(2);
                        if !take(&mut c, at(line, k), o, t, &mut left) {
                            take(&mut c, at(line, k), 1 - o, t, &mut left);
                        }
                    }
                }
            }
            5 => {
                // alternating occupied / empty
                let phase = rng.below(2);
                for k in 0..8 {
                    if k % 2 == phase {
                        let p = random_piece(rng) as usize;
                        take(&mut c, at(line, k), (p - 1) / 6, (p - 1) % 6 + 1, &mut left);
                    }
                }
            }
            6 => {
                // a single piece
                let p = random_piece(rng) as usize;
                take(&mut c, at(line, rng.below(8)), (p - 1) / 6, (p - 1) % 6 + 1, &mut left);
            }
            7 => {
                // a full line of random pieces
                for k in 0..8 {
                    let p = random_piece(rng) as usize;
                    take(&mut c, at(line, k), (p - 1) / 6, (p - 1) % 6 + 1, &mut left);
                }
            }
            _ => {
                // one colour only, random pieces, some gaps
                let o = rng.below(2);
                for k in 0..8 {
                    if rng.chance(0.8) {
                        let p = random_piece(rng) as usize;
                        take(&mut c, at(line, k), o, (p - 1) % 6 + 1, &mut left);
                    }
                }
            }
        }
    }
    // pieces on traps where a friend stands beside the trap
    for &t in TRAPS.iter() {
        if rng.chance(0.5) {
            let fr: Vec<usize> = neighbours(t).into_iter().filter(|&n| c[n] != 0).collect();
            if !fr.is_empty() {
                let o = if c[fr[rng.below(fr.len())]] <= 6 { 0 } else { 1 };
                for ty in [1usize, 2, 3, 4] {
                    if left[o][ty] > 0 {
                        left[o][ty] -= 1;
                        c[t] = (ty + 6 * o) as u8;
                        break;
                    }
                }
            }
        }
    }
    // each side keeps a rabbit
    for (o, v) in [(0usize, 1u8), (1usize, 7u8)] {
        if !c.contains(&v) {
            for _ in 0..100 {
                let i = 8 + rng.below(48);
                if c[i] == 0 && !TRAPS.contains(&i) {
                    c[i] = v;
                    left[o][1] -= 1;
                    break;
                }
            }
        }
    }
    c
}

/// "push-back" family for the confined driver: a rabbit of side A with a stronger piece of side B two squares
/// ahead of it on the same file (the rabbit can advance next to it, B can push it back and return), and a second
/// piece of A - sometimes of B too - with a small area of its own to shuffle in.  Positions recur although a rabbit
/// advances in every cycle, and turns of A that use all four steps contain a rabbit advance.
pub fn pushback_position(rng: &mut Rng) -> Option<([u8; 64], Vec<usize>)> {
    let a = rng.below(2) as u8; // owner of the rabbit: 0 gold, 1 silver
    let f = rng.below(8);
    // ranks as row indices (0 = rank 8); gold moves towards row 0
    let (x, x1, x2) = if a == 0 {
        let r = 3 + rng.below(4); // rows 3..6 -> the advance reaches rows 2..5
        (r * 8 + f, (r - 1) * 8 + f, (r - 2) * 8 + f)
    } else {
        let r = 1 + rng.below(4);
        (r * 8 + f, (r + 1) * 8 + f, (r + 2) * 8 + f)
    };
    if [x, x1, x2].iter().any(|q| TRAPS.contains(q)) {
        return None;
    }
    let mut c = [0u8; 64];
    c[x] = 1 + 6 * a;
    c[x2] = 2 + rng.below(5) as u8 + 6 * (1 - a);
    let mut region = vec![x, x1, x2];
    // shuffle areas: 1x2, 2x1, 1x3, 3x1 or 2x2 rectangles away from the column and from each other
    let owners: Vec<u8> = if rng.chance(0.5) { vec![a] } else { vec![a, 1 - a] };
    for &o in owners.iter() {
        let mut done = false;
        for _ in 0..60 {
            let (h, w) = [(1usize, 2usize), (2, 1), (1, 3), (3, 1), (2, 2)][rng.below(5)];
            let r0 = rng.below(9 - h);
            let f0 = rng.below(9 - w);
            let mut area = Vec::new();
            for r in r0..r0 + h {
                for ff in f0..f0 + w {
                    area.push(r * 8 + ff);
                }
            }
            let clear = area.iter().all(|&q| {
                !TRAPS.contains(&q) && c[q] == 0 && region.iter().all(|&p| (p / 8).abs_diff(q / 8) + (p % 8).abs_diff(q % 8) >= 2)
            });
            if !clear {
                continue;
            }
            let t = 2 + rng.below(5) as u8;
            if c.contains(&(t + 6 * o)) && COMPLEMENT[t as usize] == 1 {
                continue;
            }
            c[area[rng.below(area.len())]] = t + 6 * o;
            region.extend(area);
            done = true;
            break;
        }
        if !done {
            return None;
        }
    }
    // B's rabbit, far from everything
    let v = 1 + 6 * (1 - a);
    let mut ok = false;
    for _ in 0..80 {
        let i = 8 + rng.below(48);
        let far = region.iter().all(|&p| (p / 8).abs_diff(i / 8) + (p % 8).abs_diff(i % 8) >= 3);
        if c[i] == 0 && far && !TRAPS.contains(&i) {
            c[i] = v;
            ok = true;
            break;
        }
    }
    if !ok || !legal_position(&c) {
        return None;
    }
    Some((c, region))
}
