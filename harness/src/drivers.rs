//! Drivers: play the real engine and log one event per public transition.

use crate::positions::*;
use crate::*;

/// Mirrors the stack discipline of the trace specification (ArimaaTrace.tla):
/// an "act" event first pops `pop` states, applies the action to the new top, and then
/// either pushes the child (push = 1) or replaces the top by it (push = 0).
pub struct Game<'a> {
    pub tr: &'a mut Trace,
    pub stack: Vec<GameState>,
    pub pending_pop: usize,
    pub dead: bool, // a panic was logged; the trace is rejected there, stop driving
    pub acts: usize,
    pub resets: usize,
    pub c17: bool,
    acts_seen: usize,
}

impl<'a> Game<'a> {
    pub fn new(tr: &'a mut Trace) -> Self {
        Game { tr, stack: Vec::new(), pending_pop: 0, dead: false, acts: 0, resets: 0, c17: std::env::var("VERIF_C17").is_ok(), acts_seen: 0 }
    }

    pub fn top(&self) -> &GameState {
        &self.stack[self.stack.len() - 1 - self.pending_pop]
    }

    pub fn reset(&mut self, gs: GameState, via: &str, tag: &str) {
        self.stack.clear();
        self.pending_pop = 0;
        if !self.tr.reset(&gs, via, tag) {
            self.dead = true;
        }
        self.stack.push(gs);
    }

    pub fn reset_parsed(&mut self, c: &[u8; 64], gold: bool, mn: usize, tag: &str) -> bool {
        // rotate through the header forms the parser accepts: g/s, w/b, and no header at all
        self.resets += 1;
        let style = match self.resets % 5 {
            1 => 1,
            3 => 2,
            _ => 0,
        };
        match state_from_cells_styled(c, gold, mn, style) {
            Ok(gs) => {
                self.reset(gs, "parse", tag);
                !self.dead
            }
            Err(p) => {
                self.tr.panic_event(&p);
                self.dead = true;
                false
            }
        }
    }

    fn do_act(&mut self, a: &Action, push: bool) -> bool {
        let pop = self.pending_pop;
        for _ in 0..pop {
            self.stack.pop();
        }
        self.pending_pop = 0;
        let parent = self.stack.last().unwrap();
        match apply(parent, a) {
            Ok(child) => {
                // C17 on reached states: after every capture, and on a sample of other transitions
                self.acts_seen += 1;
                let captured = guarded(|| {
                    parent.piece_board().all_pieces.count_ones() != child.piece_board().all_pieces.count_ones()
                })
                .unwrap_or(false);
                if self.c17 && child.is_play_phase() && (captured || self.acts_seen % 40 == 0) {
                    WANT_C17.with(|w| w.set(true));
                }
                if !self.tr.act(a, &child, pop, push) {
                    self.dead = true;
                }
                if !push {
                    self.stack.pop();
                }
                self.stack.push(child);
                self.acts += 1;
                !self.dead
            }
            Err(p) => {
                self.tr.panic_event(&p);
                self.dead = true;
                false
            }
        }
    }

    /// linear play: the child replaces the current state
    pub fn step(&mut self, a: &Action) -> bool {
        self.do_act(a, false)
    }
    /// descend: the child is pushed, the parent stays below it
    pub fn descend(&mut self, a: &Action) -> bool {
        self.do_act(a, true)
    }
    /// go back to the parent (takes effect with the next event)
    pub fn ascend(&mut self) {
        self.pending_pop += 1;
    }
    /// observe a child without continuing from it
    pub fn probe(&mut self, a: &Action) -> bool {
        let ok = self.descend(a);
        if ok {
            self.ascend();
        }
        ok
    }
}

/// starting move numbers: mostly small, sometimes just below a power of two or very large (a parsed
/// position may carry any move number; C03 / C19 speak about games of any length)
pub fn start_move_number(rng: &mut Rng) -> usize {
    match rng.below(14) {
        0 => 120 + rng.below(16),
        1 => 245 + rng.below(14),
        2 => 65526 + rng.below(14),
        3 => 1_000_000 + rng.below(1000),
        4 => 2_147_480_000 + rng.below(6000),
        5 => (1usize << 63) - 3 + rng.below(6),
        6 => usize::MAX - 2000 + rng.below(1000),
        _ => 1 + rng.below(60),
    }
}

/// destination square index of a step, None if it would leave the board
pub fn dest_of(i: usize, d: Direction) -> Option<usize> {
    match d {
        Direction::Up => if i >= 8 { Some(i - 8) } else { None },
        Direction::Right => if i % 8 != 7 { Some(i + 1) } else { None },
        Direction::Down => if i < 56 { Some(i + 8) } else { None },
        Direction::Left => if i % 8 != 0 { Some(i - 1) } else { None },
    }
}

#[derive(Clone, Copy, PartialEq, Debug)]
pub enum Policy {
    Random,
    Contact,
    Shuffle,
    Capture,
}

fn action_weight(gs: &GameState, c: &[u8; 64], a: &Action, pol: Policy, last: &Option<Action>, rng: &mut Rng) -> f64 {
    let gold = gs.is_p1_turn_to_move();
    let me = if gold { 1 } else { 2 };
    match a {
        Action::Pass => match pol {
            Policy::Random => 1.0,
            Policy::Contact => 0.7,
            Policy::Capture => 0.5,
            Policy::Shuffle => 6.0,
        },
        Action::Place(_) => 1.0,
        Action::Move(sq, d) => {
            let i = sq.index();
            let enemy = c[i] != 0 && owner(c[i]) != me;
            match pol {
                Policy::Random => 1.0,
                Policy::Contact | Policy::Capture => {
                    let mut w = 1.0;
                    if enemy {
                        w += 6.0;
                    }
                    let dest = match dest_of(i, *d) {
                        Some(x) => x,
                        None => return w,
                    };
                    if neighbours(dest).iter().any(|&j| j != i && c[j] != 0 && owner(c[j]) != owner(c[i])) {
                        w += 2.0;
                    }
                    if TRAPS.contains(&dest) || neighbours(dest).iter().any(|j| TRAPS.contains(j)) {
                        w += 1.5;
                    }
                    if pol == Policy::Capture && gs.trapped_animal_for_action(a).is_some() {
                        w += 12.0;
                    }
                    w
                }
                Policy::Shuffle => {
                    // prefer undoing the previous step of the same piece
                    if let Some(Action::Move(psq, pd)) = last {
                        let pi = psq.index();
                        let pdest = dest_of(pi, *pd).unwrap_or(99);
                        let back = match pd {
                            Direction::Up => Direction::Down,
                            Direction::Down => Direction::Up,
                            Direction::Left => Direction::Right,
                            Direction::Right => Direction::Left,
                        };
                        if pdest == i && *d == back {
                            return 8.0;
                        }
                    }
                    let _ = rng;
                    if c[i] == 1 || c[i] == 7 {
                        0.15
                    } else {
                        1.0
                    }
                }
            }
        }
    }
}

pub fn choose_action(gs: &GameState, acts: &[Action], pol: Policy, last: &Option<Action>, rng: &mut Rng) -> Action {
    let c = cells(gs.piece_board());
    let ws: Vec<f64> = acts.iter().map(|a| action_weight(gs, &c, a, pol, last, rng)).collect();
    let total: f64 = ws.iter().sum();
    let mut x = ((rng.next() >> 11) as f64) / ((1u64 << 53) as f64) * total;
    for (k, w) in ws.iter().enumerate() {
        if x < *w {
            return acts[k];
        }
        x -= *w;
    }
    *acts.last().unwrap()
}

/// Play from the current top of `g` for at most max_actions actions.
/// probe_p: probability, per state, of additionally observing every child (offered and
/// rule-only) without continuing from it.
pub fn play(g: &mut Game, rng: &mut Rng, pol: Policy, max_actions: usize, probe_p: f64) {
    // per-side memory of the last step, so that Shuffle can undo it a turn later
    let mut last_own: [Option<Action>; 2] = [None, None];
    let mut n = 0;
    while n < max_actions && !g.dead {
        let gs = g.top().clone();
        let r = guarded(|| {
            stage("is_terminal");
            let t = gs.is_terminal();
            stage("valid_actions");
            let off = gs.valid_actions();
            stage("valid_actions_no_rep");
            let norep = gs.valid_actions_no_rep();
            (t, off, norep)
        });
        let (term, off, norep) = match r {
            Ok(x) => x,
            Err(p) => {
                g.tr.panic_event(&p);
                g.dead = true;
                return;
            }
        };
        if off.is_empty() {
            return;
        }
        if term.is_some() && !rng.chance(0.15) {
            return;
        }
        if rng.chance(probe_p) {
            for a in norep.iter() {
                if !g.probe(a) {
                    return;
                }
            }
        }
        let side = if gs.is_p1_turn_to_move() { 0 } else { 1 };
        let a = choose_action(&gs, &off, pol, &last_own[side], rng);
        if let Action::Move(_, _) = a {
            last_own[side] = Some(a);
        }
        if !g.step(&a) {
            return;
        }
        n += 1;
    }
}

/// Random play confined to a region: only steps inside the region (and passes) are chosen when
/// there are any, so that a handful of positions is revisited again and again.  The driver keeps
/// its own occurrence table ONLY to steer (never to judge): it prefers to end turns in positions
/// that have occurred exactly once, which saturates the neighbourhood with twice-seen positions
/// and leads to the rare states in which most or all turn-ending actions are withheld.
pub fn play_confined(g: &mut Game, rng: &mut Rng, region: &[usize], max_actions: usize, probe_p: f64) {
    use std::collections::HashMap;
    let mut seen: HashMap<([u8; 64], bool), u32> = HashMap::new();
    {
        let gs = g.top();
        seen.insert((cells(gs.piece_board()), gs.is_p1_turn_to_move()), 1);
    }
    let mut n = 0;
    while n < max_actions && !g.dead {
        let gs = g.top().clone();
        let r = guarded(|| {
            stage("is_terminal");
            let t = gs.is_terminal();
            stage("valid_actions");
            let off = gs.valid_actions();
            stage("valid_actions_no_rep");
            let norep = gs.valid_actions_no_rep();
            (t, off, norep)
        });
        let (term, off, norep) = match r {
            Ok(x) => x,
            Err(p) => {
                g.tr.panic_event(&p);
                g.dead = true;
                return;
            }
        };
        if off.is_empty() || (term.is_some() && !rng.chance(0.1)) {
            return;
        }
        if rng.chance(probe_p) || off.len() < norep.len() && rng.chance(0.3) {
            for a in norep.iter() {
                if !g.probe(a) {
                    return;
                }
            }
        }
        let inside: Vec<Action> = off
            .iter()
            .filter(|a| match a {
                Action::Move(sq, d) => {
                    region.contains(&sq.index()) && dest_of(sq.index(), *d).map_or(false, |t| region.contains(&t))
                }
                Action::Pass => true,
                _ => false,
            })
            .cloned()
            .collect();
        let pool = if inside.is_empty() || rng.chance(0.03) { off.clone() } else { inside };
        let step = gs.current_step();
        let gold = gs.is_p1_turn_to_move();
        let mut ws: Vec<f64> = Vec::with_capacity(pool.len());
        for a in pool.iter() {
            let ends = matches!(a, Action::Pass) || step == 3;
            let w = if ends {
                match apply(&gs, a) {
                    Ok(child) => {
                        let key = (cells(child.piece_board()), !gold);
                        match seen.get(&key) {
                            Some(1) => 5.0,
                            Some(_) => 1.0,
                            None => 1.5,
                        }
                    }
                    Err(_) => 1.0,
                }
            } else {
                1.2
            };
            ws.push(w);
        }
        let total: f64 = ws.iter().sum();
        let mut x = ((rng.next() >> 11) as f64) / ((1u64 << 53) as f64) * total;
        let mut pick = pool[pool.len() - 1];
        for (k, w) in ws.iter().enumerate() {
            if x < *w {
                pick = pool[k];
                break;
            }
            x -= *w;
        }
        if !g.step(&pick) {
            return;
        }
        let now = g.top();
        if now.is_play_phase() && now.current_step() == 0 {
            *seen.entry((cells(now.piece_board()), now.is_p1_turn_to_move())).or_insert(0) += 1;
        }
        n += 1;
    }
}

/// After a REAL setup: each side shuttles one non-rabbit piece of its second rank one square forward
/// and back, one step and a pass per turn (the very first turn of each side is forward, back, forward,
/// pass - the board equals the turn's start after the second step).  The opening position and the
/// three positions after it recur every four turns, so the repetition rules are exercised on the
/// history that the SETUP created - which a parsed position never has.
pub fn play_shuttle(g: &mut Game, rng: &mut Rng, turns: usize) {
    let mut shuttle: [Option<(usize, Direction)>; 2] = [None, None]; // (home square, forward direction)
    let mut first_turn_done = [false, false];
    let mut t = 0;
    while t < turns && !g.dead && g.top().is_play_phase() {
        let gs = g.top().clone();
        let side = if gs.is_p1_turn_to_move() { 0 } else { 1 };
        let fwd = if side == 0 { Direction::Up } else { Direction::Down };
        let back = if side == 0 { Direction::Down } else { Direction::Up };
        let c = cells(gs.piece_board());
        if shuttle[side].is_none() {
            let row: Vec<usize> = if side == 0 { (48..56).collect() } else { (8..16).collect() };
            let cand: Vec<usize> = row
                .into_iter()
                .filter(|&i| c[i] != 0 && c[i] != 1 && c[i] != 7 && dest_of(i, fwd).map_or(false, |d| c[d] == 0))
                .collect();
            if cand.is_empty() {
                return;
            }
            shuttle[side] = Some((cand[rng.below(cand.len())], fwd));
        }
        let (home, _) = shuttle[side].unwrap();
        let away = dest_of(home, fwd).unwrap();
        let at_home = c[home] != 0 && c[away] == 0;
        let plan: Vec<Action> = if !first_turn_done[side] && at_home {
            vec![
                Action::Move(Square::from_index(home as u8), fwd),
                Action::Move(Square::from_index(away as u8), back),
                Action::Move(Square::from_index(home as u8), fwd),
                Action::Pass,
            ]
        } else if at_home {
            vec![Action::Move(Square::from_index(home as u8), fwd), Action::Pass]
        } else {
            vec![Action::Move(Square::from_index(away as u8), back), Action::Pass]
        };
        first_turn_done[side] = true;
        for a in plan.iter() {
            if g.dead {
                return;
            }
            let cur = g.top().clone();
            if cur.is_p1_turn_to_move() != (side == 0) {
                break; // the turn has ended
            }
            let off = match guarded(|| cur.valid_actions()) {
                Ok(x) => x,
                Err(p) => {
                    g.tr.panic_event(&p);
                    g.dead = true;
                    return;
                }
            };
            if off.is_empty() {
                return;
            }
            // the planned action if the engine offers it, otherwise (it is withheld) anything offered
            let pick = if off.contains(a) { *a } else { *rng.pick(&off) };
            if !g.step(&pick) {
                return;
            }
        }
        // finish the turn if the plan did not
        let mut guard = 0;
        while !g.dead && g.top().is_play_phase() && g.top().is_p1_turn_to_move() == (side == 0) && guard < 4 {
            let cur = g.top().clone();
            let off = guarded(|| cur.valid_actions()).unwrap_or_default();
            if off.is_empty() {
                return;
            }
            let pick = if off.contains(&Action::Pass) { Action::Pass } else { *rng.pick(&off) };
            if !g.step(&pick) {
                return;
            }
            guard += 1;
        }
        t += 1;
    }
}

/// Setup, exhaustively over COUNT VECTORS (how many pieces of each type the side to place has put
/// down): every count vector is visited once, and every placement offered there is observed - the
/// same reduction as the VIEW of spec/mc/MC_setup.tla.  Gold's vectors are explored first; Silver's
/// are explored behind the first completed Gold army.
pub fn setup_all(g: &mut Game) {
    use std::collections::HashSet;
    fn key(gs: &GameState) -> (bool, [u32; 6]) {
        let pb = gs.piece_board();
        let gold = gs.is_p1_turn_to_move();
        let mut k = [0u32; 6];
        for t in 1..=6u8 {
            k[(t - 1) as usize] = pb.bits_for_piece(num_type(t), gold).count_ones();
        }
        (gold, k)
    }
    fn dfs(g: &mut Game, seen: &mut HashSet<(bool, [u32; 6])>) {
        if g.dead {
            return;
        }
        let gs = g.top().clone();
        if gs.is_play_phase() {
            return;
        }
        let off = match guarded(|| gs.valid_actions()) {
            Ok(x) => x,
            Err(p) => {
                g.tr.panic_event(&p);
                g.dead = true;
                return;
            }
        };
        for a in off.iter() {
            let child = match apply(&gs, a) {
                Ok(c) => c,
                Err(p) => {
                    g.tr.panic_event(&p);
                    g.dead = true;
                    return;
                }
            };
            let fresh = !child.is_play_phase() && seen.insert(key(&child));
            if fresh {
                if !g.descend(a) {
                    return;
                }
                dfs(g, seen);
                if g.dead {
                    return;
                }
                g.ascend();
            } else if !g.probe(a) {
                return;
            }
        }
    }
    g.reset(GameState::initial(), "initial", "setup-all");
    let mut seen = HashSet::new();
    seen.insert(key(g.top()));
    dfs(g, &mut seen);
}

/// complete random setup through the real placement phase
pub fn setup_random(g: &mut Game, rng: &mut Rng, style: usize) {
    g.reset(GameState::initial(), "initial", "setup");
    while !g.dead && !g.top().is_play_phase() {
        let gs = g.top().clone();
        let off = match guarded(|| {
            stage("valid_actions");
            gs.valid_actions()
        }) {
            Ok(x) => x,
            Err(p) => {
                g.tr.panic_event(&p);
                g.dead = true;
                return;
            }
        };
        if off.is_empty() {
            return;
        }
        let a = match style % 4 {
            0 => *rng.pick(&off),
            1 => off[0],                 // strongest available first
            2 => off[off.len() - 1],     // rabbits first
            _ => {
                if rng.chance(0.5) {
                    off[0]
                } else {
                    off[off.len() - 1]
                }
            }
        };
        if !g.step(&a) {
            return;
        }
    }
}
