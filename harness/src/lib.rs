//! Conformance harness for arimaa-engine-step: projection of engine states into the
//! abstract state of the TLA+ specification (/verif/spec), and NDJSON event output.
//!
//! Conventions shared with the specification (ArimaaBoard.tla):
//!   squares 1..64 = bit index + 1; cells 0 empty, 1..6 Gold R C D H M E, 7..12 Silver;
//!   directions 1 n(up) 2 e(right) 3 s(down) 4 w(left); sides 1 Gold 2 Silver;
//!   actions [sq,dir] step, [0,0] pass, [-1,t] placement; results 0 none 1 Gold 2 Silver.
//! Only the public API of the engine is used.

use arimaa_engine_step::*;
use std::cell::Cell;
use std::collections::hash_map::DefaultHasher;
use std::fmt::Write as _;
use std::hash::{Hash, Hasher};
use std::panic::{catch_unwind, AssertUnwindSafe};

pub mod drivers;
pub mod positions;

// ---------------------------------------------------------------------------------------
// deterministic PRNG (splitmix64) - no external crates

#[derive(Clone)]
pub struct Rng(pub u64);

impl Rng {
    pub fn new(seed: u64) -> Self {
        Rng(seed.wrapping_mul(0x9E3779B97F4A7C15) ^ 0xD1B54A32D192ED03)
    }
    pub fn next(&mut self) -> u64 {
        self.0 = self.0.wrapping_add(0x9E3779B97F4A7C15);
        let mut z = self.0;
        z = (z ^ (z >> 30)).wrapping_mul(0xBF58476D1CE4E5B9);
        z = (z ^ (z >> 27)).wrapping_mul(0x94D049BB133111EB);
        z ^ (z >> 31)
    }
    pub fn below(&mut self, n: usize) -> usize {
        if n == 0 {
            0
        } else {
            (self.next() % n as u64) as usize
        }
    }
    pub fn chance(&mut self, p: f64) -> bool {
        ((self.next() >> 11) as f64) / ((1u64 << 53) as f64) < p
    }
    pub fn pick<'a, T>(&mut self, v: &'a [T]) -> &'a T {
        &v[self.below(v.len())]
    }
    pub fn shuffle<T>(&mut self, v: &mut [T]) {
        for i in (1..v.len()).rev() {
            let j = self.below(i + 1);
            v.swap(i, j);
        }
    }
}

// ---------------------------------------------------------------------------------------
// encodings

pub fn type_num(p: Piece) -> u8 {
    match p {
        Piece::Rabbit => 1,
        Piece::Cat => 2,
        Piece::Dog => 3,
        Piece::Horse => 4,
        Piece::Camel => 5,
        Piece::Elephant => 6,
    }
}

pub fn num_type(t: u8) -> Piece {
    match t {
        1 => Piece::Rabbit,
        2 => Piece::Cat,
        3 => Piece::Dog,
        4 => Piece::Horse,
        5 => Piece::Camel,
        6 => Piece::Elephant,
        _ => panic!("harness: bad type number {}", t),
    }
}

pub fn dir_num(d: Direction) -> u8 {
    match d {
        Direction::Up => 1,
        Direction::Right => 2,
        Direction::Down => 3,
        Direction::Left => 4,
    }
}

pub fn num_dir(d: i64) -> Direction {
    match d {
        1 => Direction::Up,
        2 => Direction::Right,
        3 => Direction::Down,
        4 => Direction::Left,
        _ => panic!("harness: bad direction number {}", d),
    }
}

/// action -> [a, b] as in the specification
pub fn action_pair(a: &Action) -> (i64, i64) {
    match a {
        Action::Move(sq, d) => (sq.index() as i64 + 1, dir_num(*d) as i64),
        Action::Pass => (0, 0),
        Action::Place(p) => (-1, type_num(*p) as i64),
    }
}

pub fn pair_action(a: i64, b: i64) -> Action {
    if a >= 1 {
        Action::Move(Square::from_index((a - 1) as u8), num_dir(b))
    } else if a == 0 {
        Action::Pass
    } else {
        Action::Place(num_type(b as u8))
    }
}

/// the 64 cells of a board, read through the public square lookup and the Gold mask
pub fn cells(pb: &PieceBoardState) -> [u8; 64] {
    let mut out = [0u8; 64];
    for i in 0..64u8 {
        let sq = Square::from_index(i);
        if let Some(p) = pb.piece_type_at_square(&sq) {
            let gold = (pb.p1_pieces >> i) & 1 == 1;
            out[i as usize] = type_num(p) + if gold { 0 } else { 6 };
        }
    }
    out
}

/// build bitboards from cells, through the public constructor
pub fn board_from_cells(c: &[u8; 64]) -> PieceBoard {
    let mut t = [0u64; 7];
    let mut p1 = 0u64;
    for i in 0..64 {
        let v = c[i];
        if v != 0 {
            let ty = if v <= 6 { v } else { v - 6 };
            t[ty as usize] |= 1u64 << i;
            if v <= 6 {
                p1 |= 1u64 << i;
            }
        }
    }
    PieceBoard::new(p1, t[6], t[5], t[4], t[3], t[2], t[1])
}

pub fn diagram_of_cells(c: &[u8; 64], gold_to_move: bool, mn: usize) -> String {
    let letters = [' ', 'R', 'C', 'D', 'H', 'M', 'E', 'r', 'c', 'd', 'h', 'm', 'e'];
    let mut s = String::new();
    writeln!(s, "{}{}", mn, if gold_to_move { "g" } else { "s" }).unwrap();
    s.push_str(" +-----------------+\n");
    for r in 0..8 {
        write!(s, "{}|", 8 - r).unwrap();
        for f in 0..8 {
            let i = r * 8 + f;
            let ch = if c[i] != 0 {
                letters[c[i] as usize]
            } else if i == 18 || i == 21 || i == 42 || i == 45 {
                'x'
            } else {
                ' '
            };
            s.push(' ');
            s.push(ch);
        }
        s.push_str(" |\n");
    }
    s.push_str(" +-----------------+\n   a b c d e f g h\n");
    s
}

fn json_u8s(v: &[u8]) -> String {
    let mut s = String::with_capacity(v.len() * 3 + 2);
    s.push('[');
    for (k, x) in v.iter().enumerate() {
        if k > 0 {
            s.push(',');
        }
        write!(s, "{}", x).unwrap();
    }
    s.push(']');
    s
}

fn json_bits(b: u64) -> String {
    let mut v = Vec::new();
    for i in 0..64u8 {
        if (b >> i) & 1 == 1 {
            v.push(i + 1);
        }
    }
    json_u8s(&v)
}

pub fn json_actions(v: &[Action]) -> String {
    let mut s = String::from("[");
    for (k, a) in v.iter().enumerate() {
        if k > 0 {
            s.push(',');
        }
        let (x, y) = action_pair(a);
        write!(s, "[{},{}]", x, y).unwrap();
    }
    s.push(']');
    s
}

pub fn json_str(x: &str) -> String {
    let mut s = String::with_capacity(x.len() + 2);
    s.push('"');
    for ch in x.chars() {
        match ch {
            '"' => s.push_str("\\\""),
            '\\' => s.push_str("\\\\"),
            '\n' => s.push_str("\\n"),
            '\r' => s.push_str("\\r"),
            '\t' => s.push_str("\\t"),
            c if (c as u32) < 0x20 => write!(s, "\\u{:04x}", c as u32).unwrap(),
            c => s.push(c),
        }
    }
    s.push('"');
    s
}

/// a move number as three base-10^9 limbs [high, middle, low]: TLC integers are 32-bit, the engine's
/// move numbers are usize
pub fn limbs(n: usize) -> String {
    let n = n as u128;
    let b = 1_000_000_000u128;
    format!("[{},{},{}]", n / (b * b), (n / b) % b, n % b)
}

fn term_num(t: Option<Terminal>) -> u8 {
    match t {
        None => 0,
        Some(Terminal::GoldWin) => 1,
        Some(Terminal::SilverWin) => 2,
    }
}

fn pp_json(pp: PushPullState) -> String {
    match pp {
        PushPullState::None => "[0,0,0]".to_string(),
        PushPullState::PossiblePull(sq, p) => format!("[1,{},{}]", sq.index() + 1, type_num(p)),
        PushPullState::MustCompletePush(sq, p) => {
            format!("[2,{},{}]", sq.index() + 1, type_num(p))
        }
    }
}

// ---------------------------------------------------------------------------------------
// panic bookkeeping: every engine call happens under catch_unwind; STAGE names the call

thread_local! {
    pub static STAGE: Cell<&'static str> = Cell::new("");
}

pub fn stage(s: &'static str) {
    STAGE.with(|c| c.set(s));
}

pub fn current_stage() -> &'static str {
    STAGE.with(|c| c.get())
}

pub fn silence_panics() {
    std::panic::set_hook(Box::new(|_| {}));
}

/// run f under catch_unwind; Err carries the stage name at the time of the panic
pub fn guarded<T>(f: impl FnOnce() -> T) -> Result<T, String> {
    match catch_unwind(AssertUnwindSafe(f)) {
        Ok(v) => Ok(v),
        Err(e) => {
            let msg = if let Some(s) = e.downcast_ref::<&str>() {
                s.to_string()
            } else if let Some(s) = e.downcast_ref::<String>() {
                s.clone()
            } else {
                "?".to_string()
            };
            Err(format!("{}: {}", current_stage(), msg))
        }
    }
}

// ---------------------------------------------------------------------------------------
// observation of a state: the projection alpha plus every public query result

pub fn std_hash(gs: &GameState) -> u64 {
    let mut h = DefaultHasher::new();
    gs.hash(&mut h);
    h.finish()
}

/// A state with the same board, side and step built only through public constructors,
/// with a different move number, no pending push/pull and a one-entry history.
pub fn alt_state(gs: &GameState) -> GameState {
    let c = cells(gs.piece_board());
    let pb = board_from_cells(&c);
    let step = gs.current_step();
    let z = Zobrist::from_piece_board(pb.piece_board(), gs.is_p1_turn_to_move(), step);
    let hist = List::new().append(z);
    let prev: Vec<PieceBoard> = (0..step).map(|_| pb.clone()).collect();
    let pphase = PlayPhase::new(z, hist, prev, PushPullState::None, false);
    GameState::new(
        gs.is_p1_turn_to_move(),
        gs.move_number() + 7,
        Phase::PlayPhase(pphase),
        pb,
        z,
    )
}

thread_local! {
    /// when set, the next observation also compares the state's hash with the from-scratch hashes
    /// of all states that differ from it in exactly one hashed feature (C17 on reached states)
    pub static WANT_C17: Cell<bool> = Cell::new(false);
}

/// transposition hash of a state built from scratch through public constructors
fn scratch_th(c: &[u8; 64], gold: bool, step: usize, pp: PushPullState) -> u64 {
    let pb = board_from_cells(c);
    let z = Zobrist::from_piece_board(pb.piece_board(), gold, step);
    z.board_state_hash_with_push_pull_state(pp)
}

/// the single-feature neighbours of (board, side, step, status) whose from-scratch hash equals th:
/// returned as a JSON list of short descriptions (empty = C17 holds around this reached state)
pub fn c17_collisions(c: &[u8; 64], gold: bool, step: usize, pp: PushPullState, th: u64) -> String {
    let mut hits: Vec<String> = Vec::new();
    for k in 0..64 {
        for v in 0..13u8 {
            if v == c[k] {
                continue;
            }
            let mut c2 = *c;
            c2[k] = v;
            if scratch_th(&c2, gold, step, pp) == th {
                hits.push(format!("[\"cell\",{},{}]", k + 1, v));
            }
        }
    }
    if scratch_th(c, !gold, step, pp) == th {
        hits.push("[\"side\",0,0]".to_string());
    }
    for st in 0..4 {
        if st != step && scratch_th(c, gold, st, pp) == th {
            hits.push(format!("[\"step\",{},0]", st));
        }
    }
    let mut pps = vec![PushPullState::None];
    for sq in 0..64u8 {
        for t in 1..=6u8 {
            if t != 6 {
                pps.push(PushPullState::MustCompletePush(Square::from_index(sq), num_type(t)));
            }
            if t != 1 {
                pps.push(PushPullState::PossiblePull(Square::from_index(sq), num_type(t)));
            }
        }
    }
    for p2 in pps {
        if p2 != pp && scratch_th(c, gold, step, p2) == th {
            hits.push("[\"pp\",0,0]".to_string());
        }
    }
    format!("[{}]", hits.join(","))
}

/// the JSON fields (without braces) describing gs. Panics propagate (call under guarded()).
pub fn obs_fields(gs: &GameState, full: bool) -> String {
    let mut s = String::with_capacity(4096);
    stage("is_play_phase");
    let play = gs.is_play_phase();
    stage("piece_board");
    let pb = gs.piece_board();
    stage("piece_type_at_square");
    let c = cells(pb);
    stage("is_p1_turn_to_move");
    let gold = gs.is_p1_turn_to_move();
    stage("move_number");
    let mn = gs.move_number();
    write!(
        s,
        "\"ph\":{},\"b\":{},\"s\":{},\"mn\":{},\"mnl\":{}",
        if play { 1 } else { 0 },
        json_u8s(&c),
        if gold { 1 } else { 2 },
        limbs(mn),
        mn % 1_000_000_000
    )
    .unwrap();
    let mut st = 0usize;
    if play {
        stage("current_step");
        st = gs.current_step();
        stage("push_pull_state");
        let pph = gs.unwrap_play_phase();
        write!(s, ",\"st\":{},\"pp\":{}", st, pp_json(pph.push_pull_state())).unwrap();
        stage("piece_board_for_step");
        s.push_str(",\"pbs\":[");
        for i in 0..=st {
            if i > 0 {
                s.push(',');
            }
            s.push_str(&json_u8s(&cells(gs.piece_board_for_step(i))));
        }
        s.push(']');
        stage("previous_piece_boards");
        s.push_str(",\"prev\":[");
        for (i, p) in pph.previous_piece_boards().iter().enumerate() {
            if i > 0 {
                s.push(',');
            }
            s.push_str(&json_u8s(&cells(p.piece_board())));
        }
        s.push(']');
        stage("hash_history");
        s.push_str(",\"hh\":[");
        for (i, z) in pph.hash_history().iter().enumerate() {
            if i > 0 {
                s.push(',');
            }
            write!(s, "\"{:016x}\"", z.board_state_hash()).unwrap();
        }
        s.push(']');
        write!(s, ",\"hl\":{}", pph.hash_history().len()).unwrap();
        stage("piece_trapped_this_turn");
        write!(s, ",\"tt\":{}", if pph.piece_trapped_this_turn() { 1 } else { 0 }).unwrap();
    } else {
        s.push_str(",\"st\":0,\"pp\":[0,0,0],\"pbs\":[],\"prev\":[],\"hh\":[],\"hl\":0,\"tt\":0");
    }
    // raw views (C10)
    stage("bitboards");
    write!(
        s,
        ",\"bb\":[{},{},{},{},{},{},{},{}]",
        json_bits(pb.p1_pieces),
        json_bits(pb.all_pieces),
        json_bits(pb.elephants),
        json_bits(pb.camels),
        json_bits(pb.horses),
        json_bits(pb.dogs),
        json_bits(pb.cats),
        json_bits(pb.rabbits)
    )
    .unwrap();
    stage("bits_for_piece");
    s.push_str(",\"bfp\":[");
    let mut first = true;
    for g in [true, false] {
        for t in 1..=6u8 {
            if !first {
                s.push(',');
            }
            first = false;
            s.push_str(&json_bits(pb.bits_for_piece(num_type(t), g)));
        }
    }
    s.push(']');
    stage("bits_by_piece_type");
    s.push_str(",\"bbt\":[");
    for t in 1..=6u8 {
        if t > 1 {
            s.push(',');
        }
        s.push_str(&json_bits(pb.bits_by_piece_type(num_type(t))));
    }
    s.push(']');
    stage("player_piece_mask");
    write!(
        s,
        ",\"ppm\":[{},{}]",
        json_bits(pb.player_piece_mask(true)),
        json_bits(pb.player_piece_mask(false))
    )
    .unwrap();
    // action lists and summary queries
    stage("valid_actions");
    let off = gs.valid_actions();
    stage("valid_actions_no_rep");
    let norep = gs.valid_actions_no_rep();
    write!(s, ",\"off\":{},\"norep\":{}", json_actions(&off), json_actions(&norep)).unwrap();
    stage("is_terminal");
    let term = term_num(gs.is_terminal());
    stage("has_move");
    let hm = term_num(gs.has_move(pb));
    stage("can_pass");
    let cp1 = gs.can_pass(true);
    let cp0 = gs.can_pass(false);
    write!(
        s,
        ",\"term\":{},\"hm\":{},\"cp\":[{},{}]",
        term,
        hm,
        if cp1 { 1 } else { 0 },
        if cp0 { 1 } else { 0 }
    )
    .unwrap();
    // digest of the move-generation answers alone (C18's fast concurrent phase recomputes just these)
    write!(s, ",\"ldg\":\"{}\"", light_digest_of(&off, &norep, term, hm, cp1, cp0)).unwrap();
    stage("trapped_animal_for_action");
    s.push_str(",\"pv\":[");
    for (k, a) in norep.iter().enumerate() {
        if k > 0 {
            s.push(',');
        }
        match gs.trapped_animal_for_action(a) {
            None => s.push_str("[]"),
            Some((sq, p, g)) => {
                write!(s, "[{},{},{}]", sq.index() + 1, type_num(p), if g { 1 } else { 2 }).unwrap()
            }
        }
    }
    s.push(']');
    // hashes
    stage("transposition_hash");
    let th = gs.transposition_hash();
    write!(s, ",\"th\":\"{:016x}\"", th).unwrap();
    if play {
        stage("Zobrist::from_piece_board");
        let z = Zobrist::from_piece_board(pb, gold, st);
        let sc = z.board_state_hash_with_push_pull_state(gs.unwrap_play_phase().push_pull_state());
        write!(s, ",\"sc\":\"{:016x}\"", sc).unwrap();
        // scratch state built through public constructors from the 64 cells
        stage("alt_state");
        let alt = alt_state(gs);
        stage("eq");
        let eq = *gs == alt && alt == *gs;
        stage("std_hash");
        let heq = std_hash(gs) == std_hash(&alt);
        // from-scratch hash from re-built bitboards (not from the engine's own board value)
        let sc2 = alt
            .as_play_phase()
            .map(|_| {
                Zobrist::from_piece_board(alt.piece_board(), gold, st)
                    .board_state_hash_with_push_pull_state(
                        gs.unwrap_play_phase().push_pull_state(),
                    )
            })
            .unwrap();
        write!(
            s,
            ",\"sc2\":\"{:016x}\",\"alt\":[{},{}]",
            sc2,
            if eq { 1 } else { 0 },
            if heq { 1 } else { 0 }
        )
        .unwrap();
    } else {
        s.push_str(",\"sc\":\"\",\"sc2\":\"\",\"alt\":[1,1]");
    }
    if full {
        stage("to_string");
        let txt = gs.to_string();
        write!(s, ",\"txt\":{}", json_str(&txt)).unwrap();
        stage("from_str(printed)");
        match txt.parse::<GameState>() {
            Err(_) => s.push_str(",\"rp\":{\"ok\":0}"),
            Ok(r) => {
                let rc = cells(r.piece_board());
                let rplay = r.is_play_phase();
                let (rst, rpp, rhl) = if rplay {
                    let p = r.unwrap_play_phase();
                    (r.current_step(), pp_json(p.push_pull_state()), p.hash_history().len())
                } else {
                    (0, "[0,0,0]".to_string(), 0)
                };
                let rtxt = r.to_string();
                write!(
                    s,
                    ",\"rp\":{{\"ok\":1,\"ph\":{},\"b\":{},\"s\":{},\"mn\":{},\"st\":{},\"pp\":{},\"hl\":{},\"th\":\"{:016x}\",\"same\":{}}}",
                    if rplay { 1 } else { 0 },
                    json_u8s(&rc),
                    if r.is_p1_turn_to_move() { 1 } else { 2 },
                    limbs(r.move_number()),
                    rst,
                    rpp,
                    rhl,
                    r.transposition_hash(),
                    if rtxt == txt { 1 } else { 0 }
                )
                .unwrap();
            }
        }
    }
    // C17 on reached states (always the LAST fields: the digest of an observation ignores them)
    if play && WANT_C17.with(|w| w.replace(false)) {
        stage("c17 neighbours");
        let hits = c17_collisions(&c, gold, st, gs.unwrap_play_phase().push_pull_state(), th);
        write!(s, ",\"c17\":{},\"c17n\":1", hits).unwrap();
    } else {
        s.push_str(",\"c17\":[],\"c17n\":0");
    }
    stage("");
    s
}

// ---------------------------------------------------------------------------------------
// event writer

pub struct Trace {
    pub out: Box<dyn std::io::Write>,
    pub lines: usize,
}

impl Trace {
    pub fn new(path: &str) -> Self {
        let f = std::fs::File::create(path).expect("harness: cannot create trace file");
        Trace { out: Box::new(std::io::BufWriter::with_capacity(1 << 20, f)), lines: 0 }
    }

    fn emit(&mut self, line: String) {
        self.out.write_all(line.as_bytes()).unwrap();
        self.out.write_all(b"\n").unwrap();
        self.lines += 1;
    }

    /// a new root; via = "initial" | "parse"
    pub fn reset(&mut self, gs: &GameState, via: &str, tag: &str) -> bool {
        match guarded(|| obs_fields(gs, true)) {
            Ok(f) => {
                self.emit(format!(
                    "{{\"ev\":\"reset\",\"via\":\"{}\",\"tag\":{},\"a\":[0,0],\"pop\":0,\"push\":0,\"dg\":\"{}\",{}}}",
                    via,
                    json_str(tag),
                    digest(&f),
                    f
                ));
                true
            }
            Err(st) => {
                self.emit(panic_line(&st));
                false
            }
        }
    }

    /// the action a was applied to the state `pop` levels below the top of the stack and
    /// produced gs; push = keep the parent on the stack
    pub fn act(&mut self, a: &Action, gs: &GameState, pop: usize, push: bool) -> bool {
        match guarded(|| obs_fields(gs, true)) {
            Ok(f) => {
                let (x, y) = action_pair(a);
                self.emit(format!(
                    "{{\"ev\":\"act\",\"via\":\"\",\"tag\":\"\",\"a\":[{},{}],\"pop\":{},\"push\":{},\"dg\":\"{}\",{}}}",
                    x,
                    y,
                    pop,
                    if push { 1 } else { 0 },
                    digest(&f),
                    f
                ));
                true
            }
            Err(st) => {
                self.emit(panic_line(&st));
                false
            }
        }
    }

    /// C18: thread `tid` observed the child of the current state under action a with digest dg
    pub fn tdig(&mut self, tid: usize, a: &Action, dg: &str, pop: usize) {
        self.tdig_kind(tid, a, dg, pop, false)
    }

    /// light = the digest covers the move-generation answers only
    pub fn tdig_kind(&mut self, tid: usize, a: &Action, dg: &str, pop: usize, light: bool) {
        let (x, y) = action_pair(a);
        self.emit(format!(
            "{{\"ev\":\"tdig\",\"tid\":{},\"a\":[{},{}],\"pop\":{},\"light\":{},\"dg\":\"{}\"}}",
            tid,
            x,
            y,
            pop,
            if light { 1 } else { 0 },
            dg
        ));
    }

    /// C18: thread `tid` observed, concurrently with other threads observing OTHER states, the state
    /// that the event on line `line` of this trace observed sequentially
    pub fn pdig(&mut self, tid: usize, line: usize, dg: &str, pop: usize, light: bool) {
        self.emit(format!(
            "{{\"ev\":\"pdig\",\"tid\":{},\"line\":{},\"pop\":{},\"light\":{},\"dg\":\"{}\"}}",
            tid,
            line,
            pop,
            if light { 1 } else { 0 },
            dg
        ));
    }

    /// C18: thread `tid` observed the shared state itself
    pub fn tdig_self(&mut self, tid: usize, dg: &str, pop: usize) {
        self.emit(format!("{{\"ev\":\"tdig\",\"tid\":{},\"a\":[-2,0],\"pop\":{},\"light\":0,\"dg\":\"{}\"}}", tid, pop, dg));
    }

    /// C18: the current state observed again (after the threads have joined)
    pub fn reobs(&mut self, gs: &GameState, pop: usize) -> bool {
        match guarded(|| obs_fields(gs, true)) {
            Ok(f) => {
                self.emit(format!("{{\"ev\":\"reobs\",\"pop\":{},\"dg\":\"{}\"}}", pop, digest(&f)));
                true
            }
            Err(st) => {
                self.emit(panic_line(&st));
                false
            }
        }
    }

    pub fn panic_event(&mut self, what: &str) {
        self.emit(panic_line(what));
    }

    pub fn flush(&mut self) {
        self.out.flush().unwrap();
    }
}

/// A panic of the code under test is data.  Which property it violates depends on the call that
/// panicked (the stage name is the prefix of `what`): parsing -> C15; from-scratch hashing, equality
/// and std hashing of states -> C08; everything a driver does on a reachable state (lists, result,
/// queries, hash, printing, preview, earlier boards, applying an action) -> C19.
pub fn panic_line(what: &str) -> String {
    let props = if what.starts_with("from_str") || what.starts_with("GameState::from_str") {
        "[\"C15\"]"
    } else if what.starts_with("Zobrist::from_piece_board")
        || what.starts_with("alt_state")
        || what.starts_with("eq:")
        || what.starts_with("std_hash")
        || what.starts_with("c17")
    {
        "[\"C08\",\"C17\"]"
    } else {
        "[\"C19\"]"
    };
    format!("{{\"ev\":\"panic\",\"call\":{},\"props\":{}}}", json_str(what), props)
}

fn light_digest_of(off: &[Action], norep: &[Action], term: u8, hm: u8, cp1: bool, cp0: bool) -> String {
    let mut h = DefaultHasher::new();
    format!("{}|{}|{}|{}|{}|{}", json_actions(off), json_actions(norep), term, hm, cp1, cp0).hash(&mut h);
    format!("{:016x}", h.finish())
}

/// the move-generation answers of a state only: both action lists, result, has_move, can_pass x2
pub fn light_digest(gs: &GameState) -> String {
    let off = gs.valid_actions();
    let norep = gs.valid_actions_no_rep();
    let term = term_num(gs.is_terminal());
    let hm = term_num(gs.has_move(gs.piece_board()));
    light_digest_of(&off, &norep, term, hm, gs.can_pass(true), gs.can_pass(false))
}

/// digest of an observation (all projected fields and query results as one string)
pub fn digest(fields: &str) -> String {
    let mut h = DefaultHasher::new();
    // the optional C17 fields are not part of the observation that must be reproducible
    let core = match fields.find(",\"c17\":") {
        Some(at) => &fields[..at],
        None => fields,
    };
    core.hash(&mut h);
    format!("{:016x}", h.finish())
}

/// take_action under catch_unwind
pub fn apply(gs: &GameState, a: &Action) -> Result<GameState, String> {
    stage("take_action");
    let r = guarded(|| gs.take_action(a));
    stage("");
    r
}
