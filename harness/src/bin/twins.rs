//! twins <seed> <events> <out.ndjson>
//! C11: plays a game G on the real engine and, in lock-step, its three symmetric images
//! (mirror files; swap colours + flip ranks; both).  Each event logs the observations of
//! the four engines; the relation between them is judged by spec/TwinTrace.tla using only
//! the symmetry maps of ArimaaSym.tla (no rules).

use arimaa_engine_step::*;
use std::io::Write;
use verif_harness::drivers::*;
use verif_harness::positions::*;
use verif_harness::*;

fn obs(gs: &GameState) -> Result<String, String> {
    guarded(|| {
        stage("twin observation");
        let c = cells(gs.piece_board());
        let off = gs.valid_actions();
        let norep = gs.valid_actions_no_rep();
        let term = match gs.is_terminal() {
            None => 0,
            Some(Terminal::GoldWin) => 1,
            Some(Terminal::SilverWin) => 2,
        };
        let hm = match gs.has_move(gs.piece_board()) {
            None => 0,
            Some(Terminal::GoldWin) => 1,
            Some(Terminal::SilverWin) => 2,
        };
        let pp = match gs.unwrap_play_phase().push_pull_state() {
            PushPullState::None => "[0,0,0]".to_string(),
            PushPullState::PossiblePull(sq, p) => format!("[1,{},{}]", sq.index() + 1, type_num(p)),
            PushPullState::MustCompletePush(sq, p) => format!("[2,{},{}]", sq.index() + 1, type_num(p)),
        };
        let pv: Vec<String> = norep
            .iter()
            .map(|a| match gs.trapped_animal_for_action(a) {
                None => "[]".to_string(),
                Some((sq, p, g)) => format!("[{},{},{}]", sq.index() + 1, type_num(p), if g { 1 } else { 2 }),
            })
            .collect();
        format!(
            "{{\"b\":[{}],\"s\":{},\"st\":{},\"pp\":{},\"off\":{},\"norep\":{},\"term\":{},\"hm\":{},\"cp\":[{},{}],\"pv\":[{}]}}",
            c.iter().map(|x| x.to_string()).collect::<Vec<_>>().join(","),
            if gs.is_p1_turn_to_move() { 1 } else { 2 },
            gs.current_step(),
            pp,
            json_actions(&off),
            json_actions(&norep),
            term,
            hm,
            if gs.can_pass(true) { 1 } else { 0 },
            if gs.can_pass(false) { 1 } else { 0 },
            pv.join(",")
        )
    })
}

fn emit(out: &mut impl Write, ev: &str, a: &Action, states: &[GameState]) -> bool {
    let mut parts = Vec::new();
    for gs in states.iter() {
        match obs(gs) {
            Ok(s) => parts.push(s),
            Err(p) => {
                writeln!(out, "{{\"ev\":\"panic\",\"call\":{}}}", json_str(&p)).unwrap();
                return false;
            }
        }
    }
    let (x, y) = action_pair(a);
    writeln!(out, "{{\"ev\":\"{}\",\"a\":[{},{}],\"v\":[{}]}}", ev, x, y, parts.join(",")).unwrap();
    true
}

fn main() {
    let args: Vec<String> = std::env::args().collect();
    let seed: u64 = args[1].parse().unwrap();
    let target: usize = args[2].parse().unwrap();
    let mut out = std::io::BufWriter::new(std::fs::File::create(&args[3]).unwrap());
    silence_panics();
    let mut rng = Rng::new(seed);
    let repo_tests = std::env::var("VERIF_REPO").unwrap_or_else(|_| "/repo".to_string()) + "/src/engine_tests.rs";
    let diagrams = scrape_diagrams(&repo_tests);
    let mut lines = 0usize;
    let mut round = 0usize;
    'outer: while lines < target {
        round += 1;
        // every other round: a two-ply probe around one intended push start / pull lead (dense local
        // neighbourhood, edge squares over-represented): the first action is forced, then two more
        let mut forced: Option<Action> = None;
        let (c, gold, pol, maxlen) = if round % 2 == 0 {
            match if (round / 2) % 3 == 2 { wrap_position(&mut rng) } else { focus_position(&mut rng, (round / 2) % 3) } {
                Some((c, g, sq, d)) => {
                    forced = Some(Action::Move(Square::from_index(sq as u8), d));
                    (c, g, Policy::Contact, 3)
                }
                None => continue,
            }
        } else { match round % 8 {
            1 => (shuffle_position(&mut rng), rng.chance(0.5), Policy::Shuffle, 120),
            3 => {
                let n = 6 + rng.below(14);
                (clustered_position(&mut rng, n), rng.chance(0.5), Policy::Contact, 50)
            }
            5 => {
                let n = 4 + rng.below(28);
                (random_position(&mut rng, n), rng.chance(0.5), Policy::Capture, 50)
            }
            _ => {
                if diagrams.is_empty() {
                    continue;
                }
                let (c, g, _) = diagrams[rng.below(diagrams.len())];
                if !legal_position(&c) {
                    continue;
                }
                (c, g, Policy::Contact, 24)
            }
        } };
        let mut states: Vec<GameState> = Vec::new();
        for v in 0..4u8 {
            let cv = map_cells(&c, v);
            let gv = if v & 2 == 2 { !gold } else { gold };
            match state_from_cells(&cv, gv, 2) {
                Ok(gs) => states.push(gs),
                Err(p) => {
                    writeln!(out, "{{\"ev\":\"panic\",\"call\":{}}}", json_str(&p)).unwrap();
                    break 'outer;
                }
            }
        }
        if !emit(&mut out, "reset", &Action::Pass, &states) {
            break;
        }
        lines += 1;
        let mut last_own: [Option<Action>; 2] = [None, None];
        for _ in 0..maxlen {
            let gs = states[0].clone();
            let off = gs.valid_actions();
            if off.is_empty() || (gs.is_terminal().is_some() && !rng.chance(0.15)) {
                break;
            }
            let side = if gs.is_p1_turn_to_move() { 0 } else { 1 };
            let a = match forced.take() {
                Some(f) if off.contains(&f) => f,
                Some(_) => break,
                None => choose_action(&gs, &off, pol, &last_own[side], &mut rng),
            };
            if let Action::Move(_, _) = a {
                last_own[side] = Some(a);
            }
            let mut next: Vec<GameState> = Vec::new();
            for v in 0..4u8 {
                let av = map_action(&a, v);
                match apply(&states[v as usize], &av) {
                    Ok(n) => next.push(n),
                    Err(p) => {
                        writeln!(out, "{{\"ev\":\"panic\",\"call\":{}}}", json_str(&p)).unwrap();
                        break 'outer;
                    }
                }
            }
            states = next;
            if !emit(&mut out, "act", &a, &states) {
                break 'outer;
            }
            lines += 1;
        }
    }
    out.flush().unwrap();
}
