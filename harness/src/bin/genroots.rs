//! genroots <kind> <seed> <n> <out.ndjson>
//! Writes root positions for spec/mc/MC_gen.tla (TLC explores the specification from them):
//!   scenarios  directed low-mobility scenarios with a region restriction and a turn bound,
//!              each with its three symmetric images (seed/n ignored)
//!   patterns   a seeded sample of the local pattern family of DESIGN.md section 4
//!   diagrams   positions scraped from the repository's tests (+ symmetric images), n of them
//! Root format: {"b":[64],"s":1|2,"mn":n,"reg":[squares],"mt":turns,"tag":"..."}

use std::io::Write;
use verif_harness::positions::*;
use verif_harness::*;

fn sq(name: &str) -> usize {
    let b = name.as_bytes();
    let f = (b[0] - b'a') as usize;
    let r = (b[1] - b'0') as usize;
    (8 - r) * 8 + f
}

fn cell(ch: char) -> u8 {
    match ch {
        'R' => 1, 'C' => 2, 'D' => 3, 'H' => 4, 'M' => 5, 'E' => 6,
        'r' => 7, 'c' => 8, 'd' => 9, 'h' => 10, 'm' => 11, 'e' => 12,
        _ => 0,
    }
}

/// "Rb4 ra5 eh8" -> cells
fn place(desc: &str) -> [u8; 64] {
    let mut c = [0u8; 64];
    for w in desc.split_whitespace() {
        let ch = w.chars().next().unwrap();
        c[sq(&w[1..])] = cell(ch);
    }
    c
}

fn write_root(out: &mut impl Write, c: &[u8; 64], gold: bool, mn: usize, reg: &[usize], mt: usize, tag: &str) {
    writeln!(
        out,
        "{{\"b\":[{}],\"s\":{},\"mn\":{},\"reg\":[{}],\"mt\":{},\"tag\":\"{}\"}}",
        c.iter().map(|x| x.to_string()).collect::<Vec<_>>().join(","),
        if gold { 1 } else { 2 },
        mn,
        reg.iter().map(|x| (x + 1).to_string()).collect::<Vec<_>>().join(","),
        mt,
        tag
    )
    .unwrap();
}

fn with_images(out: &mut impl Write, c: &[u8; 64], gold: bool, mn: usize, reg: &[&str], mt: usize, tag: &str, n: &mut usize) {
    with_some_images(out, c, gold, mn, reg, mt, tag, n, &[0, 1, 2, 3])
}

#[allow(clippy::too_many_arguments)]
fn with_some_images(out: &mut impl Write, c: &[u8; 64], gold: bool, mn: usize, reg: &[&str], mt: usize, tag: &str, n: &mut usize, variants: &[u8]) {
    let reg0: Vec<usize> = reg.iter().map(|s| sq(s)).collect();
    for &v in variants.iter() {
        let cv = map_cells(c, v);
        if !legal_position(&cv) {
            continue;
        }
        let gv = if v & 2 == 2 { !gold } else { gold };
        let regv: Vec<usize> = reg0
            .iter()
            .map(|&i| {
                let mut j = i;
                if v & 1 == 1 {
                    j = mirror_sq(j);
                }
                if v & 2 == 2 {
                    j = flip_sq(j);
                }
                j
            })
            .collect();
        write_root(out, &cv, gv, mn, &regv, mt, &format!("{}/v{}", tag, v));
        *n += 1;
    }
}

/// the quick selection: every scenario family, fewer images and smaller turn bounds
fn scenarios_quick(out: &mut impl Write) -> usize {
    let mut n = 0;
    with_images(out, &place("Rb4 ra5 rb5 rc4 eh8"), false, 4, &["a4", "b4", "h8", "h7"], 10, "B1-corridor", &mut n);
    with_some_images(out, &place("Ra1 Ed4 rh8 ee5"), true, 2, &["d4", "d3", "e5", "e6"], 4, "shuttle-elephants", &mut n, &[0, 3]);
    with_some_images(out, &place("Ra1 Hc4 Db4 rh8 cd3 hg6"), true, 3, &["c4", "c3", "d3", "d4", "g6", "g5"], 2, "capture-then-shuttle", &mut n, &[0, 2]);
    with_some_images(out, &place("Ra1 Ed6 Cb6 rh8 rd7 cc7 de6"), true, 5, &["d6", "c6", "d7", "c7", "e6", "e7", "d5"], 1, "pushpull-c6", &mut n, &[0, 1, 2, 3]);
    with_images(out, &place("Rg7 Eg6 rf8 ma2 Hb2"), true, 9, &["g7", "g8", "h8", "h7", "f8", "e8", "a2", "a1"], 2, "goal-midturn", &mut n);
    with_some_images(out, &place("Ra1 Ee4 rh8 df4 me8"), true, 2, &["e4", "f4", "g4", "e8", "e7", "f5", "f3"], 2, "push-then-repeat", &mut n, &[0, 3]);
    with_images(out, &place("Ra2 da4 rh8 Rh2"), true, 2, &["a2", "a3", "a4"], 7, "rabbit-pushback", &mut n);
    with_some_images(out, &place("Rb4 ra5 rb5 rc5 rd4 eh8"), false, 4, &["a4", "b4", "c4", "h8", "h7"], 9, "corridor3", &mut n, &[0, 2]);
    n
}

fn scenarios(out: &mut impl Write) -> usize {
    let mut n = 0;
    // B1: a rabbit that can only shuttle a4-b4, an elephant shuttling h8-h7: third repetitions by
    // pass, same-as-start by fourth step, and finally nothing offered in the middle of a turn
    with_images(out, &place("Rb4 ra5 rb5 rc4 eh8"), false, 4, &["a4", "b4", "h8", "h7"], 10, "B1-corridor", &mut n);
    // two shuttling pieces a side: many interleavings of second / third occurrences
    with_images(out, &place("Ra1 Ed4 rh8 ee5"), true, 2, &["d4", "d3", "e5", "e6"], 5, "shuttle-elephants", &mut n);
    // a capture in the region: history is truncated, then positions with less material recur
    with_images(out, &place("Ra1 Hc4 Db4 rh8 cd3 hg6"), true, 3, &["c4", "c3", "d3", "d4", "g6", "g5"], 3, "capture-then-shuttle", &mut n);
    // push / pull around a trap, including a pull of a piece into the trap and a pusher captured on arrival
    with_images(out, &place("Ra1 Ed6 Cb6 rh8 rd7 cc7 de6"), true, 5, &["d6", "c6", "d7", "c7", "e6", "e7", "d5"], 2, "pushpull-c6", &mut n);
    // rabbit reaches the goal mid-turn and may leave it again sideways; last rabbit in danger
    with_images(out, &place("Rg7 Eg6 rf8 ma2 Hb2"), true, 9, &["g7", "g8", "h8", "h7", "f8", "e8", "a2", "a1"], 2, "goal-midturn", &mut n);
    // immobilised mover at start of turn (everything frozen or blocked)
    with_images(out, &place("Ra8 rb8 ea7 Rh1 Eh2"), true, 7, &["h1", "h2", "g2", "g1"], 2, "blocked-rabbit", &mut n);
    // pending push at step 3 whose completion recreates earlier positions
    with_images(out, &place("Ra1 Ee4 rh8 df4 me8"), true, 2, &["e4", "f4", "g4", "e8", "e7", "f5", "f3"], 3, "push-then-repeat", &mut n);
    // a rabbit that is advanced by its owner and pushed back by a stronger enemy piece: positions
    // recur across rabbit steps
    with_images(out, &place("Ra2 da4 rh8 Rh2"), true, 2, &["a2", "a3", "a4"], 7, "rabbit-pushback", &mut n);
    // a three-square corridor: at step 3 there can be two candidate fourth steps, both withheld
    with_images(out, &place("Rb4 ra5 rb5 rc5 rd4 eh8"), false, 4, &["a4", "b4", "c4", "h8", "h7"], 9, "corridor3", &mut n);
    // a piece that is frozen on arrival and can then only pull (own steps impossible, pass withheld
    // once the position has recurred): exercises the pull-only branch of the has-move query
    with_images(out, &place("Mc4 Ra1 ca2 ed5 rc5 rh8"), true, 6, &["c4", "d4", "c5", "d5", "e5"], 6, "frozen-puller", &mut n);
    // two possible pushers of the same victim next to a trap, short turns
    with_images(out, &place("Ea4 Mb5 rb4 Ra1 rh8 eh7"), true, 3, &["a4", "b4", "b5", "c4", "b3", "a3", "h7", "h6"], 4, "two-pushers", &mut n);
    n
}

fn patterns(out: &mut impl Write, seed: u64, count: usize, max_pieces: usize) -> usize {
    let mut rng = Rng::new(seed);
    let mut n = 0;
    let mut tries = 0;
    while n < count && tries < count * 50 {
        tries += 1;
        let mut c = [0u8; 64];
        // anchor: half of the time on or next to a trap
        let anchor = if rng.chance(0.5) {
            let t = TRAPS[rng.below(4)];
            let mut around = neighbours(t);
            around.push(t);
            around[rng.below(around.len())]
        } else {
            rng.below(64)
        };
        let ft = 1 + rng.below(6) as u8;
        let fo = rng.below(2) as u8; // 0 gold 1 silver
        c[anchor] = ft + 6 * fo;
        for nb in neighbours(anchor) {
            let class = rng.below(6);
            let v = match class {
                0 => 0,
                1 => 1 + 6 * fo,                                                  // friendly rabbit
                2 => if ft < 6 { ft + 1 + rng.below((6 - ft) as usize) as u8 + 6 * fo } else { 0 }, // friendly stronger
                3 => if ft > 1 { 1 + rng.below((ft - 1) as usize) as u8 + 6 * (1 - fo) } else { 0 }, // enemy weaker
                4 => ft + 6 * (1 - fo),                                           // enemy equal
                _ => if ft < 6 { ft + 1 + rng.below((6 - ft) as usize) as u8 + 6 * (1 - fo) } else { 0 }, // enemy stronger
            };
            c[nb] = v;
        }
        // optional second-ring pieces (supporters / freezers of the neighbours)
        for _ in 0..rng.below(3) {
            let nbs = neighbours(anchor);
            let base = nbs[rng.below(nbs.len())];
            let ring = neighbours(base);
            let at = ring[rng.below(ring.len())];
            if c[at] == 0 && at != anchor {
                c[at] = 1 + rng.below(6) as u8 + 6 * rng.below(2) as u8;
            }
        }
        // a far-away rabbit for each side so that nobody has lost all rabbits
        for (v, lo, hi) in [(1u8, 40usize, 56usize), (7u8, 8usize, 24usize)] {
            if !c.contains(&v) {
                for _ in 0..20 {
                    let i = lo + rng.below(hi - lo);
                    let far = (i / 8).abs_diff(anchor / 8) + (i % 8).abs_diff(anchor % 8) >= 4;
                    if c[i] == 0 && far && !TRAPS.contains(&i) {
                        c[i] = v;
                        break;
                    }
                }
            }
        }
        // no rabbit already on its goal rank
        if (0..8).any(|i| c[i] == 1) || (56..64).any(|i| c[i] == 7) {
            continue;
        }
        if !legal_position(&c) {
            continue;
        }
        if c.iter().filter(|&&x| x != 0).count() > max_pieces {
            continue;
        }
        let gold = rng.chance(0.5);
        write_root(out, &c, gold, 2 + rng.below(40), &[], 1, "pattern");
        n += 1;
    }
    n
}

fn diagrams(out: &mut impl Write, seed: u64, count: usize) -> usize {
    let repo_tests = std::env::var("VERIF_REPO").unwrap_or_else(|_| "/repo".to_string()) + "/src/engine_tests.rs";
    let ds = scrape_diagrams(&repo_tests);
    if ds.is_empty() {
        eprintln!("genroots: no diagrams scraped");
        std::process::exit(2);
    }
    let mut rng = Rng::new(seed);
    let mut n = 0;
    let mut tries = 0;
    while n < count && tries < count * 20 {
        tries += 1;
        let (c0, g0, mn) = ds[rng.below(ds.len())];
        let v = rng.below(4) as u8;
        let c = map_cells(&c0, v);
        if !legal_position(&c) {
            continue;
        }
        // keep the one-turn tree small enough: skip very mobile positions
        if c.iter().filter(|&&x| x != 0).count() > 12 {
            continue;
        }
        let gold = if v & 2 == 2 { !g0 } else { g0 };
        write_root(out, &c, gold, mn.max(1), &[], 1, "diagram");
        n += 1;
    }
    n
}

fn main() {
    let args: Vec<String> = std::env::args().collect();
    if args.len() < 5 {
        eprintln!("usage: genroots <kind> <seed> <n> <out>");
        std::process::exit(2);
    }
    let seed: u64 = args[2].parse().unwrap();
    let n: usize = args[3].parse().unwrap();
    let mut out = std::io::BufWriter::new(std::fs::File::create(&args[4]).unwrap());
    let k = match args[1].as_str() {
        "scenarios" => if n == 1 { scenarios_quick(&mut out) } else { scenarios(&mut out) },
        "patterns" => patterns(&mut out, seed, n, 64),
        "sparse" => patterns(&mut out, seed, n, 6),
        "sparse5" => patterns(&mut out, seed, n, 5),
        "diagrams" => diagrams(&mut out, seed, n),
        _ => {
            eprintln!("unknown kind");
            std::process::exit(2);
        }
    };
    out.flush().unwrap();
    println!("{}", k);
}
