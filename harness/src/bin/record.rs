//! record <driver> <seed> <events> <out.ndjson> [slice nslices [rot]]   (the last three: driver grid only)
//! Plays the real engine and writes one NDJSON event per public transition.

use arimaa_engine_step::*;
use verif_harness::drivers::*;
use verif_harness::positions::*;
use verif_harness::*;

fn main() {
    let args: Vec<String> = std::env::args().collect();
    if args.len() < 5 {
        eprintln!("usage: record <driver> <seed> <events> <out>");
        std::process::exit(2);
    }
    let driver = args[1].as_str();
    let seed: u64 = args[2].parse().expect("seed");
    let target: usize = args[3].parse().expect("events");
    silence_panics();
    let mut tr = Trace::new(&args[4]);
    let mut rng = Rng::new(seed);
    let repo_tests = std::env::var("VERIF_REPO").unwrap_or_else(|_| "/repo".to_string()) + "/src/engine_tests.rs";
    let diagrams = scrape_diagrams(&repo_tests);
    let slice: usize = args.get(5).map(|x| x.parse().expect("slice")).unwrap_or(0);
    let nslices: usize = args.get(6).map(|x| x.parse().expect("nslices")).unwrap_or(1);
    let rot: usize = args.get(7).map(|x| x.parse().expect("rot")).unwrap_or((seed / 1000 % 7) as usize);
    let mut grid: Vec<(usize, GridItem)> = Vec::new();
    {
        let mut g = Game::new(&mut tr);
        let mut round = 0usize;
        let mut panics = 0usize;
        while g.tr.lines < target && panics < 40 {
            if g.dead {
                // a panic was logged: that game is over, the next round starts with a reset
                g.dead = false;
                panics += 1;
            }
            round += 1;
            match driver {
                "setup" => {
                    setup_random(&mut g, &mut rng, round);
                    if !g.dead {
                        if round % 3 == 1 {
                            play_shuttle(&mut g, &mut rng, 14);
                        } else if round % 3 == 2 {
                            // the game that follows a REAL setup (not a parsed position) is confined to the
                            // two a/b-file corners, so that the opening position itself recurs
                            let region: Vec<usize> = vec![48, 49, 40, 41, 32, 33, 8, 9, 16, 17, 24, 25];
                            play_confined(&mut g, &mut rng, &region, 160, 0.02);
                        } else {
                            let pol = [Policy::Random, Policy::Contact][round % 2];
                            play(&mut g, &mut rng, pol, 24, 0.0);
                        }
                    }
                }
                "random" => {
                    let n = 2 + rng.below(31);
                    let c = if rng.chance(0.5) { random_position(&mut rng, n) } else { clustered_position(&mut rng, 4 + n / 2) };
                    let gold = rng.chance(0.5);
                    let mn = start_move_number(&mut rng);
                    if g.reset_parsed(&c, gold, mn, "random") {
                        let pol = [Policy::Random, Policy::Contact, Policy::Capture][round % 3];
                        play(&mut g, &mut rng, pol, 40, 0.08);
                    }
                }
                "contact" => {
                    let k = 6 + rng.below(14);
                    let c = clustered_position(&mut rng, k);
                    let gold = rng.chance(0.5);
                    let mn = start_move_number(&mut rng);
                    if g.reset_parsed(&c, gold, mn, "clustered") {
                        let pol = [Policy::Contact, Policy::Capture][round % 2];
                        play(&mut g, &mut rng, pol, 60, 0.05);
                    }
                }
                "diagrams" => {
                    if diagrams.is_empty() {
                        eprintln!("harness: no diagrams scraped from {}", repo_tests);
                        std::process::exit(2);
                    }
                    let (c0, gold0, mn) = diagrams[(round - 1) % diagrams.len()];
                    let v = (((round - 1) / diagrams.len()) % 4) as u8;
                    let c = map_cells(&c0, v);
                    let gold = if v & 2 == 2 { !gold0 } else { gold0 };
                    if !legal_position(&c) {
                        continue;
                    }
                    if g.reset_parsed(&c, gold, mn.max(1), "diagram") {
                        let pol = [Policy::Contact, Policy::Random, Policy::Capture][(round / 7) % 3];
                        play(&mut g, &mut rng, pol, 16, 0.25);
                    }
                }
                "unclean" => {
                    // parsed positions with hanging trap pieces: a handful of actions from each
                    if let Some(c) = unclean_position(&mut rng) {
                        let gold = rng.chance(0.5);
                        let mn = 2 + rng.below(30);
                        if g.reset_parsed(&c, gold, mn, "unclean") {
                            play(&mut g, &mut rng, Policy::Random, 5, 0.5);
                        }
                    }
                }
                "setupall" => {
                    if round > 1 {
                        break;
                    }
                    setup_all(&mut g);
                }
                "grid" | "gridtrap" => {
                    // the situation grid (positions.rs): enumerated, not sampled; this process takes the items
                    // i with i % nslices == slice.  Root lists, the intended step, and every child of the
                    // follow-up state (push completions / pull completions) are observed.
                    if grid.is_empty() {
                        for kind in (if driver == "gridtrap" { 3 } else { 0 })..5 {
                            for it in grid_positions(kind, rot) {
                                grid.push((kind, it));
                            }
                        }
                    }
                    let i = (round - 1) * nslices + slice;
                    if i >= grid.len() {
                        break;
                    }
                    let (kind, (c, gold, sq, d)) = grid[i];
                    if g.reset_parsed(&c, gold, 2 + i % 40, ["grid-push", "grid-pull", "grid-step", "grid-trap-push", "grid-trap-step"][kind]) && kind != 2 {
                        let a = Action::Move(Square::from_index(sq as u8), d);
                        let offered = guarded(|| g.top().valid_actions().contains(&a)).unwrap_or(false);
                        if offered && g.step(&a) {
                            let next = g.top().clone();
                            if let Ok(list) = guarded(|| next.valid_actions_no_rep()) {
                                for b in list.iter() {
                                    // after a pull lead only the enemy steps are of interest (do they count as pulls?)
                                    let enemy = match b {
                                        Action::Move(bs, _) => {
                                            let v = c[bs.index()];
                                            v != 0 && (v <= 6) != gold
                                        }
                                        _ => false,
                                    };
                                    if (kind == 1 || kind == 4) && !enemy {
                                        continue;
                                    }
                                    if !g.probe(b) {
                                        break;
                                    }
                                }
                            }
                        }
                    }
                }
                "rows" => {
                    // positions assembled from regular rank / file patterns (positions.rs); root and a short game
                    let c = rows_position(&mut rng);
                    if !legal_position(&c) || !c.contains(&1) || !c.contains(&7) {
                        continue;
                    }
                    let gold = rng.chance(0.5);
                    let mn = start_move_number(&mut rng);
                    if g.reset_parsed(&c, gold, mn, "rows") {
                        play(&mut g, &mut rng, [Policy::Random, Policy::Contact][round % 2], 6, 0.05);
                    }
                }
                "wide" => {
                    // extremal positions (positions.rs): as many actions / own steps / pushes in one direction /
                    // pushers as local search finds; the root and a short random continuation are observed
                    let gold = rng.chance(0.5);
                    let c = wide_position(&mut rng, round % 7, gold);
                    if !legal_position(&c) {
                        continue;
                    }
                    let mn = start_move_number(&mut rng);
                    if g.reset_parsed(&c, gold, mn, "wide") {
                        play(&mut g, &mut rng, Policy::Random, 2, 0.0);
                    }
                }
                "focus" => {
                    // two-ply probes around one intended first step (a push start or a step that may lead a
                    // pull): parse, play that step if the engine offers it, observe the follow-up state and
                    // every child of it
                    let kind = round % 3;
                    let pos = if kind == 2 { wrap_position(&mut rng) } else { focus_position(&mut rng, kind) };
                    if let Some((c, gold, sq, d)) = pos {
                        let mn = 2 + rng.below(40);
                        if g.reset_parsed(&c, gold, mn, if kind == 0 { "focus-push" } else if kind == 1 { "focus-pull" } else { "focus-wrap" }) {
                            let a = Action::Move(Square::from_index(sq as u8), d);
                            let offered = guarded(|| g.top().valid_actions().contains(&a)).unwrap_or(false);
                            if offered && g.step(&a) {
                                let next = g.top().clone();
                                // the follow-up state's lists are judged as they are; its children are
                                // observed for one sample in five only (volume matters more here)
                                // (after a pull lead more often: which enemy steps then count as pulls is
                                // only visible in the status of the grandchildren)
                                let p_children = if kind == 1 { 0.5 } else { 0.2 };
                                let list = if rng.chance(p_children) { guarded(|| next.valid_actions_no_rep()) } else { Ok(Vec::new()) };
                                if let Ok(list) = list {
                                    for b in list.iter() {
                                        if !g.probe(b) {
                                            break;
                                        }
                                    }
                                }
                            }
                        }
                    }
                }
                "results" => {
                    // C04's position family, enumerated (not sampled): both sides to move x a Gold rabbit on
                    // each square of rank 8 or none x a Silver rabbit on each square of rank 1 or none x
                    // which sides have any other rabbit x mover immobilised or not.  Each position is parsed
                    // and observed; then one offered action is played from it (mid-turn clause).
                    let fam = results_family();
                    let (c, gold) = fam[(round - 1) % fam.len()];
                    if round > fam.len() * 2 {
                        break;
                    }
                    if !legal_position(&c) {
                        continue;
                    }
                    if g.reset_parsed(&c, gold, 2 + (round % 50), "results") {
                        play(&mut g, &mut rng, Policy::Random, 1 + round % 3, 1.0);
                    }
                }
                "confined" => {
                    let (c, region) = if round % 4 == 0 {
                        match pushback_position(&mut rng) {
                            Some(x) => x,
                            None => continue,
                        }
                    } else {
                        confined_position(&mut rng)
                    };
                    let gold = rng.chance(0.5);
                    let mn = start_move_number(&mut rng);
                    if g.reset_parsed(&c, gold, mn, "confined") {
                        play_confined(&mut g, &mut rng, &region, 220, 0.02);
                    }
                }
                "shuffle" => {
                    let c = shuffle_position(&mut rng);
                    let gold = rng.chance(0.5);
                    let mn = start_move_number(&mut rng);
                    if g.reset_parsed(&c, gold, mn, "shuffle") {
                        play(&mut g, &mut rng, Policy::Shuffle, 150, 0.02);
                    }
                }
                _ => {
                    eprintln!("unknown driver {}", driver);
                    std::process::exit(2);
                }
            }
        }
    }
    tr.flush();
    let _ = GameState::initial();
}
