//! longgame: C20 - arbitrarily long capture-free games must not exhaust the stack.
//!
//!   longgame run <turns> <stack_bytes> [seed] [trace.ndjson]
//!        plays, on a thread with the given stack size, a capture-free game of <turns>
//!        turns through the public API (each turn: one step of a non-rabbit piece + pass,
//!        chosen from valid_actions_no_rep(); the repetition rule is kept by an exact
//!        occurrence table of (board, side) and spot-checked against valid_actions()),
//!        then clones, queries and drops the final state.  Prints one JSON line.
//!        With a trace file, the first 1500 events are logged for trace validation.
//!   longgame ladder <out.ndjson> <seed> <n1,n2,...> <bisect_n_small> <bisect_n_large>
//!        runs `run` in child processes (a stack overflow aborts the child, not us)
//!        and writes one record per run, plus the minimal surviving stack size at two
//!        game lengths found by bisection.

use arimaa_engine_step::*;
use std::collections::HashMap;
use std::io::Write;
use std::process::Command;
use verif_harness::drivers::*;
use verif_harness::positions::*;
use verif_harness::*;

fn start_cells() -> [u8; 64] {
    // sparse, no piece near a trap is needed: the walk avoids trap squares
    let mut c = [0u8; 64];
    c[56] = 1; // Ra1
    c[63] = 1; // Rh1
    c[0] = 7; // ra8
    c[7] = 7; // rh8
    // equal-strength movers only: nobody can ever be frozen, so a step is always available
    c[50] = 4; // Hc2
    c[53] = 4; // Hf2
    c[10] = 10; // hc7
    c[13] = 10; // hf7
    c
}

fn play(turns: usize, seed: u64, trace: Option<String>) -> Result<String, String> {
    let mut rng = Rng::new(seed);
    let c0 = start_cells();
    let mut gs = state_from_cells(&c0, true, 2)?;
    let mut table: HashMap<([u8; 64], bool), u8> = HashMap::new();
    table.insert((c0, true), 1);
    let mut tr = trace.map(|p| Trace::new(&p));
    if let Some(t) = tr.as_mut() {
        t.reset(&gs, "parse", "longgame");
    }
    let mut spot_checks = 0usize;
    let mut played = 0usize;
    while played < turns {
        let me = if gs.is_p1_turn_to_move() { 1 } else { 2 };
        let cells_now = cells(gs.piece_board());
        let acts = gs.valid_actions_no_rep();
        let mut cand: Vec<Action> = Vec::new();
        for a in acts.iter() {
            if let Action::Move(sq, d) = a {
                let i = sq.index();
                let v = cells_now[i];
                if v == 0 || owner(v) != me || v == 1 || v == 7 {
                    continue;
                }
                let dest = match dest_of(i, *d) {
                    Some(x) => x,
                    None => continue,
                };
                if TRAPS.contains(&dest) {
                    continue; // keep away from traps: the game must stay capture-free
                }
                if gs.trapped_animal_for_action(a).is_some() {
                    continue;
                }
                cand.push(*a);
            }
        }
        rng.shuffle(&mut cand);
        // prefer steps into positions not seen before (keeps the walk from exhausting a region)
        let mut scored: Vec<(u8, Action)> = cand
            .iter()
            .map(|a| {
                let nb = cells(gs.take_action(a).piece_board());
                (*table.get(&(nb, !gs.is_p1_turn_to_move())).unwrap_or(&0), *a)
            })
            .collect();
        scored.sort_by_key(|x| x.0);
        let cand: Vec<Action> = scored.into_iter().map(|x| x.1).collect();
        let mut done = false;
        for a in cand.iter() {
            let mid = gs.take_action(a);
            let nb = cells(mid.piece_board());
            let key = (nb, !gs.is_p1_turn_to_move());
            let cnt = *table.get(&key).unwrap_or(&0);
            if cnt >= 2 {
                continue;
            }
            // spot check of the driver's legality bookkeeping against the engine (O(history))
            if played % 5000 == 0 || played + 1 == turns {
                if !gs.valid_actions().contains(a) || !mid.valid_actions().contains(&Action::Pass) {
                    return Err(format!("driver bookkeeping disagrees with valid_actions at turn {}", played));
                }
                spot_checks += 1;
            }
            if let Some(t) = tr.as_mut() {
                if t.lines < 1500 {
                    t.act(a, &mid, 0, false);
                }
            }
            let next = mid.take_action(&Action::Pass);
            if let Some(t) = tr.as_mut() {
                if t.lines < 1500 {
                    t.act(&Action::Pass, &next, 0, false);
                }
            }
            table.insert(key, cnt + 1);
            gs = next;
            done = true;
            break;
        }
        if !done {
            return Err(format!("no capture-free non-repeating step at turn {} cand={} norep={:?}\n{}", played, cand.len(), acts, gs));
        }
        played += 1;
    }
    if let Some(t) = tr.as_mut() {
        t.flush();
    }
    let hl = gs.unwrap_play_phase().hash_history().len();
    // clone, query, drop
    let cl = gs.clone();
    let t = cl.is_terminal();
    let n_off = cl.valid_actions().len();
    let cp = cl.can_pass(true);
    let th = cl.transposition_hash();
    let iter_len = cl.unwrap_play_phase().hash_history().iter().count();
    // "querying a state" holds at every step of a turn: walk one more turn to step 3 on a clone and ask each
    // state on the way for its result, its pass availability and both action lists (the fourth-step filter of
    // the repetition rules reads the whole history only at step 3)
    let mut w = cl.clone();
    for _ in 0..3 {
        let cw = cells(w.piece_board());
        let me = if w.is_p1_turn_to_move() { 1 } else { 2 };
        let step = w.valid_actions().into_iter().find(|a| match a {
            Action::Move(sq, d) => {
                let v = cw[sq.index()];
                v != 0 && owner(v) == me && v != 1 && v != 7
                    && dest_of(sq.index(), *d).map_or(false, |x| !TRAPS.contains(&x))
                    && w.trapped_animal_for_action(a).is_none()
            }
            _ => false,
        });
        let a = match step {
            Some(a) => a,
            None => break,
        };
        w = w.take_action(&a);
        std::hint::black_box((w.is_terminal(), w.can_pass(true), w.valid_actions().len(), w.valid_actions_no_rep().len(), w.transposition_hash()));
    }
    drop(w);
    drop(cl);
    let tail_len = gs.unwrap_play_phase().hash_history().tail().len();
    drop(gs);
    Ok(format!(
        "\"turns\":{},\"hl\":{},\"iter_len\":{},\"tail_len\":{},\"term\":{},\"noff\":{},\"cp\":{},\"th\":\"{:016x}\",\"spot\":{}",
        played,
        hl,
        iter_len,
        tail_len,
        if t.is_some() { 1 } else { 0 },
        n_off,
        if cp { 1 } else { 0 },
        th,
        spot_checks
    ))
}

/// `longgame unwind <turns> <stack>`: the thread that owns the long game PANICS, so that the state is
/// dropped while the stack unwinds; discarding a game this way must not abort the process either
fn unwind(args: &[String]) {
    let turns: usize = args[0].parse().unwrap();
    let stack: usize = args[1].parse().unwrap();
    std::panic::set_hook(Box::new(|_| {}));
    let h = std::thread::Builder::new()
        .stack_size(stack)
        .spawn(move || {
            let mut rng = Rng::new(7);
            let c0 = start_cells();
            let mut gs = state_from_cells(&c0, true, 2).unwrap();
            // a quick capture-free game without repetition bookkeeping: horses walk, never twice the
            // same direction back (positions may repeat at most twice thanks to the occurrence table)
            let mut table: HashMap<([u8; 64], bool), u8> = HashMap::new();
            let mut played = 0;
            while played < turns {
                let me = if gs.is_p1_turn_to_move() { 1 } else { 2 };
                let cn = cells(gs.piece_board());
                let mut cand: Vec<Action> = gs
                    .valid_actions_no_rep()
                    .into_iter()
                    .filter(|a| match a {
                        Action::Move(sq, d) => {
                            let v = cn[sq.index()];
                            v != 0 && owner(v) == me && v != 1 && v != 7
                                && dest_of(sq.index(), *d).map_or(false, |t| !TRAPS.contains(&t))
                        }
                        _ => false,
                    })
                    .collect();
                rng.shuffle(&mut cand);
                let mut done = false;
                for a in cand.iter() {
                    let mid = gs.take_action(a);
                    let key = (cells(mid.piece_board()), !gs.is_p1_turn_to_move());
                    let cnt = *table.get(&key).unwrap_or(&0);
                    if cnt >= 2 {
                        continue;
                    }
                    table.insert(key, cnt + 1);
                    gs = mid.take_action(&Action::Pass);
                    done = true;
                    break;
                }
                if !done {
                    std::process::exit(3);
                }
                played += 1;
            }
            let hl = gs.unwrap_play_phase().hash_history().len();
            if hl != turns + 1 {
                std::process::exit(5);
            }
            let _keep = gs;
            panic!("deliberate panic while owning a long game");
        })
        .unwrap();
    match h.join() {
        Err(_) => println!("{{\"ok\":1,\"unwound\":1,\"turns\":{}}}", turns),
        Ok(_) => {
            println!("{{\"ok\":0,\"err\":\"thread did not panic\"}}");
            std::process::exit(4);
        }
    }
}

fn run(args: &[String]) {
    let turns: usize = args[0].parse().unwrap();
    let stack: usize = args[1].parse().unwrap();
    let seed: u64 = args.get(2).and_then(|x| x.parse().ok()).unwrap_or(7);
    let trace = args.get(3).cloned();
    let h = std::thread::Builder::new()
        .stack_size(stack)
        .spawn(move || play(turns, seed, trace))
        .unwrap();
    match h.join() {
        Ok(Ok(s)) => {
            println!("{{\"ok\":1,{}}}", s);
        }
        Ok(Err(e)) => {
            println!("{{\"ok\":0,\"err\":{}}}", json_str(&e));
            std::process::exit(3);
        }
        Err(_) => {
            println!("{{\"ok\":0,\"err\":\"panic\"}}");
            std::process::exit(4);
        }
    }
}

fn child(turns: usize, stack: usize, trace: Option<&str>) -> (bool, String, String) {
    // a walk that gets stuck (exit 3: the driver found no capture-free non-repeating step)
    // says nothing about the engine: retry with another seed
    for seed in 7..12u64 {
        let r = child_seed(turns, stack, seed, trace);
        if r.1 != "exit3" {
            return r;
        }
    }
    child_seed(turns, stack, 99, trace)
}

fn child_seed(turns: usize, stack: usize, seed: u64, trace: Option<&str>) -> (bool, String, String) {
    let exe = std::env::current_exe().unwrap();
    let mut cmd = Command::new(exe);
    cmd.arg("run").arg(turns.to_string()).arg(stack.to_string()).arg(seed.to_string());
    if let Some(t) = trace {
        cmd.arg(t);
    }
    let out = cmd.output().expect("spawn child");
    let stdout = String::from_utf8_lossy(&out.stdout).trim().to_string();
    let status = if out.status.success() {
        "exit0".to_string()
    } else {
        #[cfg(unix)]
        {
            use std::os::unix::process::ExitStatusExt;
            match out.status.signal() {
                Some(s) => format!("signal{}", s),
                None => format!("exit{}", out.status.code().unwrap_or(-1)),
            }
        }
        #[cfg(not(unix))]
        {
            format!("exit{}", out.status.code().unwrap_or(-1))
        }
    };
    (out.status.success(), status, stdout)
}

fn min_stack(turns: usize) -> usize {
    // smallest stack (multiple of 4 KiB) on which the game of `turns` turns survives
    let (mut lo, mut hi) = (4usize, 16 * 1024usize); // in KiB; hi = 16 MiB
    if !child(turns, hi * 1024, None).0 {
        return usize::MAX;
    }
    while hi - lo > 4 {
        let mid = (lo + hi) / 2 / 4 * 4;
        if child(turns, mid * 1024, None).0 {
            hi = mid;
        } else {
            lo = mid;
        }
    }
    hi * 1024
}

fn ladder(args: &[String]) {
    let mut out = std::io::BufWriter::new(std::fs::File::create(&args[0]).unwrap());
    let ns: Vec<usize> = args[2].split(',').map(|x| x.parse().unwrap()).collect();
    let b1: usize = args[3].parse().unwrap();
    let b2: usize = args[4].parse().unwrap();
    let default_stack = 2 * 1024 * 1024;
    for n in ns {
        let (ok, status, stdout) = child(n, default_stack, None);
        let body = if stdout.starts_with('{') { stdout } else { "{}".to_string() };
        writeln!(out, "{{\"k\":\"run\",\"n\":{},\"stack\":{},\"survived\":{},\"status\":\"{}\",\"res\":{}}}", n, default_stack, if ok { 1 } else { 0 }, status, body).unwrap();
        out.flush().unwrap();
    }
    // discarding a long game while a panic unwinds the owning thread
    {
        let exe = std::env::current_exe().unwrap();
        let n = 100000usize;
        let o = Command::new(exe).arg("unwind").arg(n.to_string()).arg(default_stack.to_string()).output().expect("spawn child");
        let ok = o.status.success();
        let status = if ok { "exit0".to_string() } else {
            #[cfg(unix)]
            { use std::os::unix::process::ExitStatusExt; match o.status.signal() { Some(s) => format!("signal{}", s), None => format!("exit{}", o.status.code().unwrap_or(-1)) } }
            #[cfg(not(unix))]
            { format!("exit{}", o.status.code().unwrap_or(-1)) }
        };
        writeln!(out, "{{\"k\":\"unwind\",\"n\":{},\"stack\":{},\"survived\":{},\"status\":\"{}\"}}", n, default_stack, if ok { 1 } else { 0 }, status).unwrap();
        out.flush().unwrap();
    }
    let m1 = min_stack(b1);
    let m2 = min_stack(b2);
    writeln!(
        out,
        "{{\"k\":\"bisect\",\"n1\":{},\"min1\":{},\"n2\":{},\"min2\":{}}}",
        b1,
        if m1 == usize::MAX { -1 } else { m1 as i64 },
        b2,
        if m2 == usize::MAX { -1 } else { m2 as i64 }
    )
    .unwrap();
    writeln!(out, "{{\"k\":\"done\"}}").unwrap();
    out.flush().unwrap();
}

fn main() {
    let args: Vec<String> = std::env::args().collect();
    if args.len() < 2 {
        eprintln!("usage: longgame run|ladder ...");
        std::process::exit(2);
    }
    match args[1].as_str() {
        "run" => run(&args[2..]),
        "unwind" => unwind(&args[2..]),
        "ladder" => ladder(&args[2..]),
        _ => std::process::exit(2),
    }
}
