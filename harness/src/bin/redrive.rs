//! redrive <replay.ndjson> <out.ndjson>
//! Re-executes a stored replay (a trace from a reset up to the offending event, as written by ./check)
//! on the engine as it is NOW: the root is re-created (initial state, or parse of the logged diagram
//! text), the logged actions are applied with the logged stack discipline, and a fresh trace is
//! written.  ./check <ID> --replay <file> validates that fresh trace, so a replay is rejected exactly
//! while the defect is present.

use arimaa_engine_step::*;
use verif_harness::drivers::*;
use verif_harness::*;

fn field<'a>(line: &'a str, key: &str) -> Option<&'a str> {
    let k = format!("\"{}\":", key);
    let at = line.find(&k)? + k.len();
    Some(&line[at..])
}

fn ints(s: &str, n: usize) -> Vec<i64> {
    let mut out = Vec::new();
    let b = s.as_bytes();
    let mut i = 0;
    while i < b.len() && out.len() < n {
        if b[i].is_ascii_digit() || (b[i] == b'-' && i + 1 < b.len() && b[i + 1].is_ascii_digit()) {
            let st = i;
            i += 1;
            while i < b.len() && b[i].is_ascii_digit() {
                i += 1;
            }
            out.push(s[st..i].parse().unwrap());
        } else {
            i += 1;
        }
    }
    out
}

fn json_string(s: &str) -> String {
    // s starts right after the colon: "...."
    let mut out = String::new();
    let mut it = s.trim_start().chars();
    if it.next() != Some('"') {
        return out;
    }
    while let Some(c) = it.next() {
        match c {
            '"' => break,
            '\\' => match it.next() {
                Some('n') => out.push('\n'),
                Some('t') => out.push('\t'),
                Some('r') => out.push('\r'),
                Some('u') => {
                    let h: String = (0..4).filter_map(|_| it.next()).collect();
                    if let Some(ch) = u32::from_str_radix(&h, 16).ok().and_then(char::from_u32) {
                        out.push(ch);
                    }
                }
                Some(x) => out.push(x),
                None => break,
            },
            x => out.push(x),
        }
    }
    out
}

fn main() {
    let args: Vec<String> = std::env::args().collect();
    if args.len() < 3 {
        eprintln!("usage: redrive <replay.ndjson> <out.ndjson>");
        std::process::exit(2);
    }
    silence_panics();
    let text = std::fs::read_to_string(&args[1]).expect("replay file");
    let mut tr = Trace::new(&args[2]);
    {
        let mut g = Game::new(&mut tr);
        for line in text.lines() {
            if g.dead {
                break;
            }
            if line.starts_with("{\"ev\":\"reset\"") {
                let via = field(line, "via").map(json_string).unwrap_or_default();
                if via == "initial" {
                    g.reset(GameState::initial(), "initial", "redrive");
                } else {
                    let txt = field(line, "txt").map(json_string).unwrap_or_default();
                    stage("from_str");
                    match guarded(|| txt.parse::<GameState>()) {
                        Ok(Ok(gs)) => g.reset(gs, "parse", "redrive"),
                        Ok(Err(e)) => {
                            eprintln!("redrive: the logged root does not parse: {}", e);
                            std::process::exit(2);
                        }
                        Err(p) => {
                            g.tr.panic_event(&p);
                            break;
                        }
                    }
                }
            } else if line.starts_with("{\"ev\":\"act\"") {
                let a = ints(field(line, "a").unwrap_or(""), 2);
                let pop = ints(field(line, "pop").unwrap_or("0"), 1)[0] as usize;
                let push = ints(field(line, "push").unwrap_or("0"), 1)[0] == 1;
                // the harness's own stack follows the logged discipline
                for _ in 0..pop.saturating_sub(g.pending_pop) {
                    g.ascend();
                }
                let act = pair_action(a[0], a[1]);
                if push {
                    g.descend(&act);
                } else {
                    g.step(&act);
                }
            }
            // panic / thread events are not re-driven: the engine either panics again (a fresh panic
            // event is written) or it does not
        }
    }
    tr.flush();
}
