//! replay <tlc_output.txt> <roots.ndjson> <out.ndjson> [probe_extra] [shard nshards]
//! Spec -> implementation: drives the real engine along every behaviour emitted by TLC
//! (lines `"P <root> <<path>>"` of spec/mc/MC_gen.tla) and logs the observations in the
//! same event format as `record`, as a depth-first walk with shared prefixes (push/pop).
//! With probe_extra=1, every rule-only action that TLC did not follow from a visited state
//! is observed once as well (its child is not continued).

use arimaa_engine_step::*;
use std::collections::BTreeMap;
use verif_harness::drivers::*;
use verif_harness::positions::*;
use verif_harness::*;

fn ints(s: &str) -> Vec<i64> {
    let mut out = Vec::new();
    let b = s.as_bytes();
    let mut i = 0;
    while i < b.len() {
        if b[i].is_ascii_digit() || (b[i] == b'-' && i + 1 < b.len() && b[i + 1].is_ascii_digit()) {
            let st = i;
            i += 1;
            while i < b.len() && b[i].is_ascii_digit() {
                i += 1;
            }
            out.push(s[st..i].parse().unwrap());
        } else {
            i += 1;
        }
    }
    out
}

#[derive(Default)]
struct Node {
    kids: BTreeMap<(i64, i64), Node>,
}

fn insert(n: &mut Node, path: &[(i64, i64)]) {
    if let Some((h, t)) = path.split_first() {
        insert(n.kids.entry(*h).or_default(), t);
    }
}

fn walk(g: &mut Game, n: &Node, probe_extra: u8, counters: &mut (usize, usize)) {
    if g.dead {
        return;
    }
    let gs = g.top().clone();
    // mode 3 = mode 1 restricted to states TLC expanded (no probes below the turn bound)
    let probe_here = probe_extra > 0 && !(probe_extra == 3 && n.kids.is_empty());
    if probe_here && gs.is_play_phase() {
        // mode 1: every rule-only action TLC did not follow; mode 2: only turn-ending actions the
        // ENGINE offers and TLC did not follow (the specification withheld them, or they leave the region)
        let list = match guarded(|| if probe_extra != 2 { gs.valid_actions_no_rep() } else { gs.valid_actions() }) {
            Ok(x) => x,
            Err(p) => {
                g.tr.panic_event(&p);
                g.dead = true;
                return;
            }
        };
        let last_step = gs.current_step() == 3;
        for a in list.iter() {
            if probe_extra == 2 && !(last_step || matches!(a, Action::Pass)) {
                continue;
            }
            if !n.kids.contains_key(&action_pair(a)) {
                if !g.probe(a) {
                    return;
                }
                counters.1 += 1;
            }
        }
    }
    for (k, child) in n.kids.iter() {
        let a = pair_action(k.0, k.1);
        if !g.descend(&a) {
            return;
        }
        counters.0 += 1;
        walk(g, child, probe_extra, counters);
        if g.dead {
            return;
        }
        g.ascend();
    }
}

fn main() {
    let args: Vec<String> = std::env::args().collect();
    if args.len() < 4 {
        eprintln!("usage: replay <tlc_output> <roots.ndjson> <out.ndjson> [probe_extra]");
        std::process::exit(2);
    }
    let probe_extra: u8 = args.get(4).and_then(|x| x.parse().ok()).unwrap_or(0);
    // optional sharding: only roots with (index % nshards) == shard are replayed
    let shard: usize = args.get(5).and_then(|x| x.parse().ok()).unwrap_or(0);
    let nshards: usize = args.get(6).and_then(|x| x.parse().ok()).unwrap_or(1);
    silence_panics();
    // roots
    let mut roots: Vec<([u8; 64], bool, usize)> = Vec::new();
    for line in std::fs::read_to_string(&args[2]).expect("roots").lines() {
        if line.trim().is_empty() {
            continue;
        }
        let after = |key: &str| -> &str {
            let at = line.find(key).unwrap_or_else(|| panic!("replay: root without {}", key)) + key.len();
            &line[at..]
        };
        let brest = after("\"b\":");
        let bs = brest.find('[').unwrap() + 1;
        let be = brest.find(']').unwrap();
        let cells_v = ints(&brest[bs..be]);
        let mut c = [0u8; 64];
        for (i, v) in cells_v.iter().enumerate().take(64) {
            c[i] = *v as u8;
        }
        let side = ints(&after("\"s\":")[..4.min(after("\"s\":").len())])[0];
        let mrest = after("\"mn\":");
        let mn = ints(&mrest[..14.min(mrest.len())])[0];
        roots.push((c, side == 1, mn as usize));
    }
    // paths
    let mut tries: Vec<Node> = (0..roots.len()).map(|_| Node::default()).collect();
    let mut npaths = 0usize;
    for line in std::fs::read_to_string(&args[1]).expect("tlc output").lines() {
        let t = line.trim().trim_matches('"');
        if let Some(rest) = t.strip_prefix("P ") {
            let v = ints(rest);
            let rid = v[0] as usize;
            let pairs: Vec<(i64, i64)> = v[1..].chunks(2).map(|c| (c[0], c[1])).collect();
            if rid == 0 || rid > tries.len() {
                eprintln!("replay: bad root id {}", rid);
                std::process::exit(2);
            }
            insert(&mut tries[rid - 1], &pairs);
            npaths += 1;
        }
    }
    let mut tr = Trace::new(&args[3]);
    let mut counters = (0usize, 0usize);
    {
        let mut g = Game::new(&mut tr);
        for (k, (c, gold, mn)) in roots.iter().enumerate() {
            if g.dead {
                g.dead = false; // the walk below that root was abandoned at a panic; go on with the next root
            }
            if k % nshards != shard {
                continue;
            }
            if !g.reset_parsed(c, *gold, *mn, &format!("root{}", k + 1)) {
                break;
            }
            walk(&mut g, &tries[k], probe_extra, &mut counters);
            // unwind
            g.stack.truncate(1);
            g.pending_pop = 0;
        }
    }
    tr.flush();
    println!("{{\"paths\":{},\"followed\":{},\"extra_probes\":{},\"roots\":{}}}", npaths, counters.0, counters.1, roots.len());
    let _ = GameState::initial();
}
