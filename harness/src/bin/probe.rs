//! probe <family> ... : table-driven cases that are not game traces.
//!   probe notation <L> <seed> <nrandom> <out>   all strings up to length L over the abstract
//!                                                 alphabet of spec/Notation.tla, all values, all squares
//!   (other families are added below)

use arimaa_engine_step::*;
use std::io::Write;
use verif_harness::*;

/// realisation of the abstract alphabet of Notation.tla (SymText), same order
const SYMS: [&str; 39] = [
    "a", "c", "h", "i", "A", "H", "`", "0", "1", "8", "9", "n", "e", "s", "w", "x", "p", "r", "R", "E", "m", "q", " ",
    "\u{e9}", "\u{20ac}", "\u{161}", "\u{ff11}", "\u{1f600}", "\u{131}", "\u{16e}", "\u{172}", "\u{170}", "P", "N", "S", "W", "\n", "\r", "\t",
];

fn outcome<T>(r: Result<Result<T, anyhow_like::Error>, String>, enc: impl Fn(&T) -> String) -> String {
    match r {
        Err(_) => "[-99]".to_string(),
        Ok(Err(_)) => "[-9]".to_string(),
        Ok(Ok(v)) => enc(&v),
    }
}

mod anyhow_like {
    pub type Error = Box<dyn std::fmt::Debug>;
}

fn parse_all(text: &str) -> String {
    stage("Action::from_str");
    let act = guarded(|| text.parse::<Action>().map_err(|e| Box::new(e.to_string()) as anyhow_like::Error));
    stage("Square::from_str");
    let sq = guarded(|| text.parse::<Square>().map_err(|e| Box::new(e.to_string()) as anyhow_like::Error));
    stage("Piece::from_str");
    let pc = guarded(|| text.parse::<Piece>().map_err(|e| Box::new(e.to_string()) as anyhow_like::Error));
    stage("Direction::from_str");
    let dir = guarded(|| text.parse::<Direction>().map_err(|e| Box::new(e.to_string()) as anyhow_like::Error));
    stage("");
    format!(
        "\"act\":{},\"sq\":{},\"pc\":{},\"dir\":{}",
        outcome(act, |a| {
            let (x, y) = action_pair(a);
            format!("[{},{}]", x, y)
        }),
        outcome(sq, |s| format!("[{}]", s.index() + 1)),
        outcome(pc, |p| format!("[{}]", type_num(*p))),
        outcome(dir, |d| format!("[{}]", dir_num(*d)))
    )
}

fn notation(args: &[String]) {
    let l: usize = args[0].parse().unwrap();
    let seed: u64 = args[1].parse().unwrap();
    let nrandom: usize = args[2].parse().unwrap();
    let mut out = std::io::BufWriter::new(std::fs::File::create(&args[3]).unwrap());
    let k = SYMS.len();
    let mut n = 0usize;
    // all strings of length 1..=L
    for len in 1..=l {
        let mut idx = vec![0usize; len];
        loop {
            let text: String = idx.iter().map(|&i| SYMS[i]).collect();
            let s: Vec<String> = idx.iter().map(|i| (i + 1).to_string()).collect();
            writeln!(out, "{{\"k\":\"str\",\"s\":[{}],\"txt\":{},{}}}", s.join(","), json_str(&text), parse_all(&text)).unwrap();
            n += 1;
            let mut p = len;
            loop {
                if p == 0 {
                    break;
                }
                p -= 1;
                idx[p] += 1;
                if idx[p] < k {
                    break;
                }
                idx[p] = 0;
                if p == 0 {
                    p = usize::MAX;
                    break;
                }
            }
            if p == usize::MAX {
                break;
            }
        }
    }
    // sampled longer strings
    let mut rng = Rng::new(seed);
    for _ in 0..nrandom {
        let len = l + 1 + rng.below(4);
        let idx: Vec<usize> = (0..len).map(|_| rng.below(k)).collect();
        let text: String = idx.iter().map(|&i| SYMS[i]).collect();
        let s: Vec<String> = idx.iter().map(|i| (i + 1).to_string()).collect();
        writeln!(out, "{{\"k\":\"rnd\",\"s\":[{}],\"txt\":{},{}}}", s.join(","), json_str(&text), parse_all(&text)).unwrap();
    }
    // all values: print and parse back
    let back = |text: &str, which: usize| -> String {
        let all = parse_all(text);
        // pick the field: act, sq, pc, dir
        let key = ["\"act\":", "\"sq\":", "\"pc\":", "\"dir\":"][which];
        let at = all.find(key).unwrap() + key.len();
        let rest = &all[at..];
        let end = rest.find(']').unwrap() + 1;
        rest[..end].to_string()
    };
    for sq in 1..=64i64 {
        for d in 1..=4i64 {
            let a = pair_action(sq, d);
            let txt = guarded(|| a.to_string()).unwrap_or_else(|_| "<panic>".into());
            writeln!(out, "{{\"k\":\"val\",\"kind\":\"action\",\"v\":[{},{}],\"txt\":{},\"back\":{}}}", sq, d, json_str(&txt), back(&txt, 0)).unwrap();
        }
    }
    {
        let txt = Action::Pass.to_string();
        writeln!(out, "{{\"k\":\"val\",\"kind\":\"action\",\"v\":[0,0],\"txt\":{},\"back\":{}}}", json_str(&txt), back(&txt, 0)).unwrap();
    }
    for t in 1..=6u8 {
        let a = Action::Place(num_type(t));
        let txt = a.to_string();
        writeln!(out, "{{\"k\":\"val\",\"kind\":\"action\",\"v\":[-1,{}],\"txt\":{},\"back\":{}}}", t, json_str(&txt), back(&txt, 0)).unwrap();
        let p = num_type(t);
        let txt = p.to_string();
        let up = txt.to_uppercase();
        writeln!(out, "{{\"k\":\"val\",\"kind\":\"piece\",\"v\":[{}],\"txt\":{},\"back\":{},\"backup\":{}}}", t, json_str(&txt), back(&txt, 2), back(&up, 2)).unwrap();
    }
    for d in 1..=4i64 {
        let txt = num_dir(d).to_string();
        writeln!(out, "{{\"k\":\"val\",\"kind\":\"dir\",\"v\":[{}],\"txt\":{},\"back\":{}}}", d, json_str(&txt), back(&txt, 3)).unwrap();
    }
    for i in 0..64u8 {
        let sq = Square::from_index(i);
        let txt = sq.to_string();
        writeln!(out, "{{\"k\":\"val\",\"kind\":\"square\",\"v\":[{}],\"txt\":{},\"back\":{}}}", i + 1, json_str(&txt), back(&txt, 1)).unwrap();
        let r = guarded(|| {
            let bit = sq.as_bit_board();
            let bits: Vec<String> = (0..64).filter(|b| (bit >> b) & 1 == 1).map(|b| (b + 1).to_string()).collect();
            let col = sq.column_char();
            let row = sq.row();
            let new = Square::new((b'a' + (i % 8)) as char, 8 - (i as usize / 8));
            let mapped: Vec<String> = map_bit_board_to_squares(1u64 << i).iter().map(|s| s.index().to_string()).collect();
            format!(
                "{{\"k\":\"square\",\"i\":{},\"idx\":{},\"bit\":[{}],\"frombit\":{},\"col\":\"{}\",\"row\":{},\"new\":{},\"txt\":{},\"mapped\":[{}]}}",
                i + 1,
                sq.index(),
                bits.join(","),
                Square::from_bit_board(bit).index(),
                col,
                row,
                new.index(),
                json_str(&sq.to_string()),
                mapped.join(",")
            )
        });
        match r {
            Ok(line) => writeln!(out, "{}", line).unwrap(),
            Err(p) => writeln!(out, "{{\"k\":\"panic\",\"call\":{}}}", json_str(&p)).unwrap(),
        }
    }
    writeln!(out, "{{\"k\":\"done\",\"n\":{},\"L\":{},\"KK\":{}}}", n, l, k).unwrap();
    out.flush().unwrap();
}

// ---------------------------------------------------------------------------------------
// C17: groups of states that pairwise differ in exactly one hashed feature

fn th_of(c: &[u8; 64], gold: bool, step: usize, pp: PushPullState) -> Result<u64, String> {
    guarded(|| {
        stage("hash constructors");
        let pb = board_from_cells(c);
        let z = Zobrist::from_piece_board(pb.piece_board(), gold, step);
        let prev: Vec<PieceBoard> = (0..step).map(|_| pb.clone()).collect();
        let ph = PlayPhase::new(z, List::new().append(z), prev, pp, false);
        let gs = GameState::new(gold, 2, Phase::PlayPhase(ph), pb, z);
        stage("transposition_hash");
        gs.transposition_hash()
    })
}

fn hex_list(v: &[Result<u64, String>]) -> String {
    let xs: Vec<String> = v
        .iter()
        .map(|r| match r {
            Ok(h) => format!("\"{:016x}\"", h),
            Err(_) => "\"panic\"".to_string(),
        })
        .collect();
    format!("[{}]", xs.join(","))
}

fn hash(args: &[String]) {
    let nbases: usize = args[0].parse().unwrap();
    let seed: u64 = args[1].parse().unwrap();
    let mut out = std::io::BufWriter::new(std::fs::File::create(&args[2]).unwrap());
    let mut rng = Rng::new(seed);
    let mut pairs: u64 = 0;
    for base_no in 0..nbases {
        // base 0 is the empty board with Gold to move at step 0, nothing pending
        let (base, gold, step, pp) = if base_no == 0 {
            ([0u8; 64], true, 0usize, PushPullState::None)
        } else {
            let n = 4 + rng.below(26);
            let c = positions::random_position(&mut rng, n);
            let st = rng.below(4);
            let pp = match rng.below(3) {
                0 => PushPullState::None,
                1 => PushPullState::PossiblePull(Square::from_index(rng.below(64) as u8), num_type(2 + rng.below(5) as u8)),
                _ => PushPullState::MustCompletePush(Square::from_index(rng.below(64) as u8), num_type(1 + rng.below(5) as u8)),
            };
            (c, rng.chance(0.5), st, pp)
        };
        let base_json = format!(
            "\"base\":{},\"bb\":[{}],\"bs\":{},\"bst\":{}",
            base_no,
            base.iter().map(|x| x.to_string()).collect::<Vec<_>>().join(","),
            if gold { 1 } else { 2 },
            step
        );
        // (1) the content of one square: 13 contents
        for k in 0..64 {
            let hs: Vec<_> = (0..13u8)
                .map(|v| {
                    let mut c = base;
                    c[k] = v;
                    th_of(&c, gold, step, pp)
                })
                .collect();
            writeln!(out, "{{\"k\":\"group\",\"cls\":\"cell\",\"sq\":{},\"keys\":[0,1,2,3,4,5,6,7,8,9,10,11,12],\"th\":{},{}}}", k + 1, hex_list(&hs), base_json).unwrap();
            pairs += 78;
        }
        // (2) one piece of a kind standing on different (empty) squares
        for v in 1..=12u8 {
            let empties: Vec<usize> = (0..64).filter(|&i| base[i] == 0).collect();
            let hs: Vec<_> = empties
                .iter()
                .map(|&i| {
                    let mut c = base;
                    c[i] = v;
                    th_of(&c, gold, step, pp)
                })
                .collect();
            let keys: Vec<String> = empties.iter().map(|i| (i + 1).to_string()).collect();
            writeln!(out, "{{\"k\":\"group\",\"cls\":\"kind\",\"c\":{},\"keys\":[{}],\"th\":{},{}}}", v, keys.join(","), hex_list(&hs), base_json).unwrap();
            pairs += (empties.len() * (empties.len().max(1) - 1) / 2) as u64;
        }
        // (3) side to move
        let hs = vec![th_of(&base, true, step, pp), th_of(&base, false, step, pp)];
        writeln!(out, "{{\"k\":\"group\",\"cls\":\"side\",\"keys\":[1,2],\"th\":{},{}}}", hex_list(&hs), base_json).unwrap();
        pairs += 1;
        // (4) step number
        let hs: Vec<_> = (0..4).map(|st| th_of(&base, gold, st, pp)).collect();
        writeln!(out, "{{\"k\":\"group\",\"cls\":\"step\",\"keys\":[0,1,2,3],\"th\":{},{}}}", hex_list(&hs), base_json).unwrap();
        pairs += 6;
        // (5) all 641 push/pull statuses
        let mut keys: Vec<String> = vec!["[0,0,0]".to_string()];
        let mut hs = vec![th_of(&base, gold, step, PushPullState::None)];
        for kind in [2u8, 1u8] {
            for sq in 0..64u8 {
                for t in 1..=6u8 {
                    if (kind == 2 && t == 6) || (kind == 1 && t == 1) {
                        continue; // a pushed elephant / a pulling rabbit cannot be represented
                    }
                    let s = Square::from_index(sq);
                    let pps = if kind == 2 { PushPullState::MustCompletePush(s, num_type(t)) } else { PushPullState::PossiblePull(s, num_type(t)) };
                    keys.push(format!("[{},{},{}]", kind, sq + 1, t));
                    hs.push(th_of(&base, gold, step, pps));
                }
            }
        }
        writeln!(out, "{{\"k\":\"group\",\"cls\":\"pp\",\"keys\":[{}],\"th\":{},{}}}", keys.join(","), hex_list(&hs), base_json).unwrap();
        pairs += (hs.len() * (hs.len() - 1) / 2) as u64;
    }
    writeln!(out, "{{\"k\":\"done\",\"bases\":{},\"pairs\":{}}}", nbases, pairs).unwrap();
    out.flush().unwrap();
}

// ---------------------------------------------------------------------------------------
// C15(b): diagram-like texts by shape (spec/DiagramTrace.tla describes the shape space)

const HEADERS: [(&str, &str); 17] = [
    ("none", ""),
    ("small_g", "7g"),
    ("small_s", "12s"),
    ("small_w", "3w"),
    ("small_b", "4b"),
    ("zero_g", "0g"),
    ("lead_ws", "  \n 15s"),
    ("max_usize", "18446744073709551615g"),
    ("over_usize", "18446744073709551616g"),
    ("digits23", "12345678901234567890123s"),
    ("arabic_indic", "\u{663}g"),
    ("fullwidth", "\u{ff10}\u{ff10}\u{ff12}g"),
    ("plus", "+5g"),
    ("minus", "-5g"),
    ("bad_side", "5x"),
    ("side_only", "g"),
    ("upper_side", "5G"),
];

fn diagram_case(out: &mut impl Write, kind: &str, desc: &str, text: &str, intended: Option<&[u8; 64]>) {
    stage("GameState::from_str");
    let r = guarded(|| text.parse::<GameState>());
    stage("");
    let res = match r {
        Err(p) => format!("\"out\":\"panic\",\"call\":{}", json_str(&p)),
        Ok(Err(_)) => "\"out\":\"err\"".to_string(),
        Ok(Ok(gs)) => match guarded(|| {
            let c = cells(gs.piece_board());
            let play = gs.is_play_phase();
            let (st, hl, ppn) = if play {
                let p = gs.unwrap_play_phase();
                (gs.current_step(), p.hash_history().len(), matches!(p.push_pull_state(), PushPullState::None))
            } else {
                (0, 0, true)
            };
            // a parsed state must also be usable: list its actions, print it
            stage("valid_actions (parsed state)");
            let n = gs.valid_actions().len();
            stage("to_string (parsed state)");
            let _ = gs.to_string();
            stage("is_terminal (parsed state)");
            let _ = gs.is_terminal();
            format!(
                "\"out\":\"ok\",\"b\":[{}],\"s\":{},\"mn\":\"{}\",\"st\":{},\"hl\":{},\"ppn\":{},\"ph\":{},\"nact\":{}",
                c.iter().map(|x| x.to_string()).collect::<Vec<_>>().join(","),
                if gs.is_p1_turn_to_move() { 1 } else { 2 },
                gs.move_number(),
                st,
                hl,
                if ppn { 1 } else { 0 },
                if play { 1 } else { 0 },
                n
            )
        }) {
            Ok(f) => f,
            Err(p) => format!("\"out\":\"panic\",\"call\":{}", json_str(&p)),
        },
    };
    let cj = match intended {
        Some(c) => format!("[{}]", c.iter().map(|x| x.to_string()).collect::<Vec<_>>().join(",")),
        None => "[]".to_string(),
    };
    writeln!(out, "{{\"k\":\"{}\",{},\"cells\":{},\"txt\":{},{}}}", kind, desc, cj, json_str(text), res).unwrap();
}

fn diagram(args: &[String]) {
    let seed: u64 = args[0].parse().unwrap();
    let nmut: usize = args[1].parse().unwrap();
    let mut out = std::io::BufWriter::new(std::fs::File::create(&args[2]).unwrap());
    let mut rng = Rng::new(seed);
    let letters = [' ', 'R', 'C', 'D', 'H', 'M', 'E', 'r', 'c', 'd', 'h', 'm', 'e'];
    let row_counts = [0usize, 1, 2, 7, 8, 9, 10, 16, 33];
    let col_counts = [0usize, 1, 7, 8, 9, 16, 99]; // 99 = ragged
    let cell_classes = ["pieces", "empty", "junk", "multibyte", "allpieces"];
    let trails = [("none", ""), ("bar", "|"), ("bar_piece", "|R"), ("extra_row", "| R r |"), ("text", "hello")];
    let mut n = 0usize;
    for (hname, htxt) in HEADERS.iter() {
        for &nrows in row_counts.iter() {
            for &ncols in col_counts.iter() {
                for cc in cell_classes.iter() {
                    for (tname, ttxt) in trails.iter() {
                        // thin out the product: every pair of factors occurs, the full product only near the well-formed shape
                        let near = (nrows == 8 || nrows == 9) && (ncols == 8 || ncols == 9);
                        if !near && !(rng.chance(0.12)) && !(*hname == "none" && *tname == "none") && !(*cc == "pieces" && *tname == "none" && ncols == 8) {
                            continue;
                        }
                        let base = positions::random_position(&mut rng, 6 + (n % 20));
                        let mut cells_used = [0u8; 64];
                        let mut text = String::new();
                        text.push_str(htxt);
                        text.push_str("\n +-----------------+\n");
                        for r in 0..nrows {
                            text.push_str(&format!("{}|", if r < 8 { 8 - r } else { 0 }));
                            let cols = if ncols == 99 { [0usize, 3, 8, 12, 8, 1, 9, 8][r % 8] } else { ncols };
                            for f in 0..cols {
                                let v = if r < 8 && f < 8 { base[r * 8 + f] } else { base[(r * 8 + f) % 64] };
                                let ch: String = match *cc {
                                    "pieces" => {
                                        let idx = r * 8 + f;
                                        if v == 0 && (idx == 18 || idx == 21 || idx == 42 || idx == 45) { "x".to_string() } else { letters[v as usize].to_string() }
                                    }
                                    "empty" => " ".to_string(),
                                    "junk" => ["?", "z", "1", "-", "X"][rng.below(5)].to_string(),
                                    "multibyte" => ["\u{e9}", "\u{20ac}", "\u{1f600}", "R", "e"][rng.below(5)].to_string(),
                                    _ => letters[1 + rng.below(12)].to_string(),
                                };
                                if r < 8 && f < 8 && (*cc == "pieces") {
                                    cells_used[r * 8 + f] = v;
                                }
                                text.push(' ');
                                text.push_str(&ch);
                            }
                            text.push_str(" |\n");
                        }
                        text.push_str(" +-----------------+\n   a b c d e f g h\n");
                        text.push_str(ttxt);
                        let desc = format!(
                            "\"hdr\":\"{}\",\"nrows\":{},\"ncols\":{},\"cc\":\"{}\",\"trail\":\"{}\"",
                            hname, nrows, ncols, cc, tname
                        );
                        diagram_case(&mut out, "shape", &desc, &text, Some(&cells_used));
                        n += 1;
                    }
                }
            }
        }
    }
    // beyond the grammar: random character-level mutations of printed diagrams
    let pool: Vec<char> = "|\n +-x12890gswbRCDHMErcdhme\u{e9}\u{20ac}\u{663}\u{ff11}\u{1f600}\t".chars().collect();
    for i in 0..nmut {
        let np = 2 + rng.below(30);
        let c = positions::random_position(&mut rng, np);
        let mut chars: Vec<char> = diagram_of_cells(&c, rng.chance(0.5), 1 + rng.below(200)).chars().collect();
        for _ in 0..(1 + rng.below(6)) {
            let at = rng.below(chars.len().max(1));
            match rng.below(4) {
                0 => {
                    if !chars.is_empty() {
                        chars[at] = *rng.pick(&pool);
                    }
                }
                1 => chars.insert(at, *rng.pick(&pool)),
                2 => {
                    if !chars.is_empty() {
                        chars.remove(at);
                    }
                }
                _ => {
                    // duplicate a slice (extra rows / columns)
                    let len = 1 + rng.below(40);
                    let end = (at + len).min(chars.len());
                    let slice: Vec<char> = chars[at..end].to_vec();
                    for (j, ch) in slice.into_iter().enumerate() {
                        chars.insert(at + j, ch);
                    }
                }
            }
        }
        let text: String = chars.into_iter().collect();
        diagram_case(&mut out, "mut", &format!("\"n\":{}", i), &text, None);
    }
    writeln!(out, "{{\"k\":\"done\",\"shapes\":{},\"muts\":{}}}", n, nmut).unwrap();
    out.flush().unwrap();
}

// ---------------------------------------------------------------------------------------
// linked_list.rs against its sequential meaning (spec/PListTrace.tla)

fn plist(args: &[String]) {
    let seed: u64 = args[0].parse().unwrap();
    let nops: usize = args[1].parse().unwrap();
    let mut out = std::io::BufWriter::new(std::fs::File::create(&args[2]).unwrap());
    let mut rng = Rng::new(seed);
    let mut hs: Vec<Option<List<u32>>> = (0..8).map(|_| None).collect();
    let mut next_val = 1u32;
    for _ in 0..nops {
        let live: Vec<usize> = (0..8).filter(|&i| hs[i].is_some()).collect();
        let free: Vec<usize> = (0..8).filter(|&i| hs[i].is_none()).collect();
        let op = if live.is_empty() { 0 } else { rng.below(10) };
        match op {
            0 => {
                if let Some(&d) = free.first() {
                    hs[d] = Some(List::new());
                    writeln!(out, "{{\"op\":\"new\",\"dst\":{}}}", d).unwrap();
                }
            }
            1 | 2 | 3 | 4 => {
                // append: the result replaces a random slot (possibly the source itself: the old
                // handle is dropped, the usual way a game state advances)
                let sidx = *rng.pick(&live);
                let d = rng.below(8);
                let v = next_val;
                next_val += 1;
                let r = guarded(|| hs[sidx].as_ref().unwrap().append(v));
                match r {
                    Ok(n) => {
                        hs[d] = Some(n);
                        writeln!(out, "{{\"op\":\"append\",\"src\":{},\"dst\":{},\"v\":{}}}", sidx, d, v).unwrap();
                    }
                    Err(p) => writeln!(out, "{{\"op\":\"panic\",\"call\":{}}}", json_str(&p)).unwrap(),
                }
            }
            5 => {
                let sidx = *rng.pick(&live);
                let d = rng.below(8);
                let t = hs[sidx].as_ref().unwrap().tail();
                hs[d] = Some(t);
                writeln!(out, "{{\"op\":\"tail\",\"src\":{},\"dst\":{}}}", sidx, d).unwrap();
            }
            6 => {
                let sidx = *rng.pick(&live);
                let d = rng.below(8);
                let t = hs[sidx].as_ref().unwrap().clone();
                hs[d] = Some(t);
                writeln!(out, "{{\"op\":\"clone\",\"src\":{},\"dst\":{}}}", sidx, d).unwrap();
            }
            7 => {
                let sidx = *rng.pick(&live);
                hs[sidx] = None;
                writeln!(out, "{{\"op\":\"drop\",\"src\":{}}}", sidx).unwrap();
            }
            _ => {
                let sidx = *rng.pick(&live);
                let h = hs[sidx].as_ref().unwrap();
                let it: Vec<String> = h.iter().take(4000).map(|x| x.to_string()).collect();
                let head = match h.head() {
                    Some(x) => format!("[{}]", x),
                    None => "[]".to_string(),
                };
                writeln!(
                    out,
                    "{{\"op\":\"query\",\"src\":{},\"len\":{},\"empty\":{},\"head\":{},\"iter\":[{}]}}",
                    sidx,
                    h.len(),
                    if h.is_empty() { 1 } else { 0 },
                    head,
                    it.join(",")
                )
                .unwrap();
            }
        }
    }
    out.flush().unwrap();
}

// ---------------------------------------------------------------------------------------
// re-execution of stored failing probe records on the engine as it is now (./check --replay)

fn json_field_string(line: &str, key: &str) -> Option<String> {
    let k = format!("\"{}\":", key);
    let at = line.find(&k)? + k.len();
    let mut out = String::new();
    let mut it = line[at..].trim_start().chars();
    if it.next() != Some('"') {
        return None;
    }
    while let Some(c) = it.next() {
        match c {
            '"' => break,
            '\\' => match it.next() {
                Some('n') => out.push('\n'),
                Some('t') => out.push('\t'),
                Some('r') => out.push('\r'),
                Some('u') => {
                    let h: String = (0..4).filter_map(|_| it.next()).collect();
                    if let Some(ch) = u32::from_str_radix(&h, 16).ok().and_then(char::from_u32) {
                        out.push(ch);
                    }
                }
                Some(x) => out.push(x),
                None => break,
            },
            x => out.push(x),
        }
    }
    Some(out)
}

/// rerun <family> <stored records> <out>: notation records are re-parsed from their symbol list,
/// diagram records from their text
fn rerun(args: &[String]) {
    let family = args[0].as_str();
    let text = std::fs::read_to_string(&args[1]).expect("records");
    let mut out = std::io::BufWriter::new(std::fs::File::create(&args[2]).unwrap());
    for line in text.lines() {
        if line.trim().is_empty() {
            continue;
        }
        match family {
            "notation" => {
                if let Some(at) = line.find("\"s\":[") {
                    let rest = &line[at + 5..];
                    let end = rest.find(']').unwrap_or(0);
                    let idx: Vec<usize> = rest[..end].split(',').filter_map(|x| x.trim().parse::<usize>().ok()).collect();
                    if idx.iter().all(|&i| i >= 1 && i <= SYMS.len()) && !idx.is_empty() {
                        let t: String = idx.iter().map(|&i| SYMS[i - 1]).collect();
                        let sj: Vec<String> = idx.iter().map(|i| i.to_string()).collect();
                        writeln!(out, "{{\"k\":\"rnd\",\"s\":[{}],\"txt\":{},{}}}", sj.join(","), json_str(&t), parse_all(&t)).unwrap();
                    }
                }
            }
            "diagram" => {
                if let Some(t) = json_field_string(line, "txt") {
                    diagram_case(&mut out, "mut", "\"n\":0", &t, None);
                }
            }
            _ => {
                eprintln!("rerun: unknown family");
                std::process::exit(2);
            }
        }
    }
    out.flush().unwrap();
}

fn main() {
    let args: Vec<String> = std::env::args().collect();
    silence_panics();
    if args.len() < 2 {
        eprintln!("usage: probe <family> ...");
        std::process::exit(2);
    }
    match args[1].as_str() {
        "notation" => notation(&args[2..]),
        "hash" => hash(&args[2..]),
        "diagram" => diagram(&args[2..]),
        "plist" => plist(&args[2..]),
        "rerun" => rerun(&args[2..]),
        x => {
            eprintln!("unknown probe family {}", x);
            std::process::exit(2);
        }
    }
}
