//! probe <family> ... : table-driven cases that are not game traces.
//!   probe notation <L> <seed> <nrandom> <out>   all strings up to length L over the abstract
//!                                                 alphabet of spec/Notation.tla, all values, all squares
//!   (other families are added below)

use arimaa_engine_step::*;
use std::io::Write;
use verif_harness::*;

/// realisation of the abstract alphabet of Notation.tla (SymText), same order
const SYMS: [&str; 28] = [
    "a", "c", "h", "i", "A", "H", "`", "0", "1", "8", "9", "n", "e", "s", "w", "x", "p", "r", "R", "E", "m", "q", " ",
    "\u{e9}", "\u{20ac}", "\u{161}", "\u{ff11}", "\u{1f600}",
];

fn outcome<T>(r: Result<Result<T, anyhow_like::Error>, String>, enc: impl Fn(&T) -> String) -> String {
    match r {
        Err(_) => "[-99]".to_string(),
        Ok(Err(_)) => "[-9]".to_string(),
        Ok(Ok(v)) => enc(&v),
    }
}

mod anyhow_like {
    pub type Error = Box<dyn std::fmt::Debug>;
}

fn parse_all(text: &str) -> String {
    stage("Action::from_str");
    let act = guarded(|| text.parse::<Action>().map_err(|e| Box::new(e.to_string()) as anyhow_like::Error));
    stage("Square::from_str");
    let sq = guarded(|| text.parse::<Square>().map_err(|e| Box::new(e.to_string()) as anyhow_like::Error));
    stage("Piece::from_str");
    let pc = guarded(|| text.parse::<Piece>().map_err(|e| Box::new(e.to_string()) as anyhow_like::Error));
    stage("Direction::from_str");
    let dir = guarded(|| text.parse::<Direction>().map_err(|e| Box::new(e.to_string()) as anyhow_like::Error));
    stage("");
    format!(
        "\"act\":{},\"sq\":{},\"pc\":{},\"dir\":{}",
        outcome(act, |a| {
            let (x, y) = action_pair(a);
            format!("[{},{}]", x, y)
        }),
        outcome(sq, |s| format!("[{}]", s.index() + 1)),
        outcome(pc, |p| format!("[{}]", type_num(*p))),
        outcome(dir, |d| format!("[{}]", dir_num(*d)))
    )
}

fn notation(args: &[String]) {
    let l: usize = args[0].parse().unwrap();
    let seed: u64 = args[1].parse().unwrap();
    let nrandom: usize = args[2].parse().unwrap();
    let mut out = std::io::BufWriter::new(std::fs::File::create(&args[3]).unwrap());
    let k = SYMS.len();
    let mut n = 0usize;
    // all strings of length 1..=L
    for len in 1..=l {
        let mut idx = vec![0usize; len];
        loop {
            let text: String = idx.iter().map(|&i| SYMS[i]).collect();
            let s: Vec<String> = idx.iter().map(|i| (i + 1).to_string()).collect();
            writeln!(out, "{{\"k\":\"str\",\"s\":[{}],\"txt\":{},{}}}", s.join(","), json_str(&text), parse_all(&text)).unwrap();
            n += 1;
            let mut p = len;
            loop {
                if p == 0 {
                    break;
                }
                p -= 1;
                idx[p] += 1;
                if idx[p] < k {
                    break;
                }
                idx[p] = 0;
                if p == 0 {
                    p = usize::MAX;
                    break;
                }
            }
            if p == usize::MAX {
                break;
            }
        }
    }
    // sampled longer strings
    let mut rng = Rng::new(seed);
    for _ in 0..nrandom {
        let len = l + 1 + rng.below(4);
        let idx: Vec<usize> = (0..len).map(|_| rng.below(k)).collect();
        let text: String = idx.iter().map(|&i| SYMS[i]).collect();
        let s: Vec<String> = idx.iter().map(|i| (i + 1).to_string()).collect();
        writeln!(out, "{{\"k\":\"rnd\",\"s\":[{}],\"txt\":{},{}}}", s.join(","), json_str(&text), parse_all(&text)).unwrap();
    }
    // all values: print and parse back
    let back = |text: &str, which: usize| -> String {
        let all = parse_all(text);
        // pick the field: act, sq, pc, dir
        let key = ["\"act\":", "\"sq\":", "\"pc\":", "\"dir\":"][which];
        let at = all.find(key).unwrap() + key.len();
        let rest = &all[at..];
        let end = rest.find(']').unwrap() + 1;
        rest[..end].to_string()
    };
    for sq in 1..=64i64 {
        for d in 1..=4i64 {
            let a = pair_action(sq, d);
            let txt = guarded(|| a.to_string()).unwrap_or_else(|_| "<panic>".into());
            writeln!(out, "{{\"k\":\"val\",\"kind\":\"action\",\"v\":[{},{}],\"txt\":{},\"back\":{}}}", sq, d, json_str(&txt), back(&txt, 0)).unwrap();
        }
    }
    {
        let txt = Action::Pass.to_string();
        writeln!(out, "{{\"k\":\"val\",\"kind\":\"action\",\"v\":[0,0],\"txt\":{},\"back\":{}}}", json_str(&txt), back(&txt, 0)).unwrap();
    }
    for t in 1..=6u8 {
        let a = Action::Place(num_type(t));
        let txt = a.to_string();
        writeln!(out, "{{\"k\":\"val\",\"kind\":\"action\",\"v\":[-1,{}],\"txt\":{},\"back\":{}}}", t, json_str(&txt), back(&txt, 0)).unwrap();
        let p = num_type(t);
        let txt = p.to_string();
        let up = txt.to_uppercase();
        writeln!(out, "{{\"k\":\"val\",\"kind\":\"piece\",\"v\":[{}],\"txt\":{},\"back\":{},\"backup\":{}}}", t, json_str(&txt), back(&txt, 2), back(&up, 2)).unwrap();
    }
    for d in 1..=4i64 {
        let txt = num_dir(d).to_string();
        writeln!(out, "{{\"k\":\"val\",\"kind\":\"dir\",\"v\":[{}],\"txt\":{},\"back\":{}}}", d, json_str(&txt), back(&txt, 3)).unwrap();
    }
    for i in 0..64u8 {
        let sq = Square::from_index(i);
        let txt = sq.to_string();
        writeln!(out, "{{\"k\":\"val\",\"kind\":\"square\",\"v\":[{}],\"txt\":{},\"back\":{}}}", i + 1, json_str(&txt), back(&txt, 1)).unwrap();
        let r = guarded(|| {
            let bit = sq.as_bit_board();
            let bits: Vec<String> = (0..64).filter(|b| (bit >> b) & 1 == 1).map(|b| (b + 1).to_string()).collect();
            let col = sq.column_char();
            let row = sq.row();
            let new = Square::new((b'a' + (i % 8)) as char, 8 - (i as usize / 8));
            let mapped: Vec<String> = map_bit_board_to_squares(1u64 << i).iter().map(|s| s.index().to_string()).collect();
            format!(
                "{{\"k\":\"square\",\"i\":{},\"idx\":{},\"bit\":[{}],\"frombit\":{},\"col\":\"{}\",\"row\":{},\"new\":{},\"txt\":{},\"mapped\":[{}]}}",
                i + 1,
                sq.index(),
                bits.join(","),
                Square::from_bit_board(bit).index(),
                col,
                row,
                new.index(),
                json_str(&sq.to_string()),
                mapped.join(",")
            )
        });
        match r {
            Ok(line) => writeln!(out, "{}", line).unwrap(),
            Err(p) => writeln!(out, "{{\"k\":\"panic\",\"call\":{}}}", json_str(&p)).unwrap(),
        }
    }
    writeln!(out, "{{\"k\":\"done\",\"n\":{},\"L\":{},\"KK\":{}}}", n, l, k).unwrap();
    out.flush().unwrap();
}

fn main() {
    let args: Vec<String> = std::env::args().collect();
    silence_panics();
    if args.len() < 2 {
        eprintln!("usage: probe <family> ...");
        std::process::exit(2);
    }
    match args[1].as_str() {
        "notation" => notation(&args[2..]),
        x => {
            eprintln!("unknown probe family {}", x);
            std::process::exit(2);
        }
    }
}
